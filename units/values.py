"""unit values: the small value classes on the parse path: term_value<VT> (what a term's functor result is wrapped in: value +
source point), source_point's stream output, recognized_term (a lexer's answer), parse_options / match_options setters, nterm<T>.
R13: VT is an opaque value (ghost id); R10: stream output is an event."""
import os, sys, re
sys.path.insert(0, os.path.dirname(os.path.abspath(__file__)))
from vx.core import Fn, Unit, apply_spec
from vx.lower import S, Call, Emit
import pcommon as PC

HERE = os.path.dirname(os.path.abspath(__file__))
fns = []


def F(name, header, csig, rules=(), scope=None, **kw):
    fns.append(Fn(name=name, header=header, csig=csig, scope=scope, rules=list(rules), **kw))


MEMB = Call(r'VX_INIT__(\w+)', 'self->{m1} = ({args})', name='R19:member initializer m(e)')
THIS = S(r'return \*this;', 'return self;', name='R4:return *this')


def member(n, min=1):
    return S(r'(?<![\w.>])%s\b' % n, 'self->' + n, min=min, name='R4:member ' + n)


TV = [r'class\s+term_value\b']
F('term_value__ctor', r'constexpr term_value\(VT v, source_point sp\)', 'void term_value__ctor(struct term_value* self, vx_val v, struct source_point sp)', [MEMB], TV, ctor=True)
F('term_value__to_VT', r'constexpr operator VT\(\)', 'vx_val term_value__to_VT(const struct term_value* self)', [member('value')], TV)
F('term_value__get_line', r'constexpr size32_t get_line\(\)', 'size32_t term_value__get_line(const struct term_value* self)', [member('sp')], TV)
F('term_value__get_column', r'constexpr size32_t get_column\(\)', 'size32_t term_value__get_column(const struct term_value* self)', [member('sp')], TV)
F('term_value__get_value', r'constexpr const VT& get_value\(\)', 'const vx_val* term_value__get_value(const struct term_value* self)', [S(r'return value;', 'return &self->value;', name='R5:reference result')], TV)
F('term_value__get_sp', r'constexpr source_point get_sp\(\)', 'struct source_point term_value__get_sp(const struct term_value* self)', [member('sp')], TV)
F('source_point__print', r'inline std::ostream& operator << \(std::ostream& o, const source_point& sp\)', 'void source_point__print(const struct source_point* sp)',
  [Emit(r'o', [(r'sp\.(\w+)', '(unsigned long)(sp->{0})')]), S(r'return o;', 'return;', name='R10:stream result')], between_ok=r'\s*')
F('recognized_term__ctor', r'constexpr recognized_term\(size16_t term_idx, size_t len\)', 'void recognized_term__ctor(struct recognized_term* self, size16_t term_idx, size_t len)', [MEMB], [r'struct\s+recognized_term\b'], ctor=True)
PO, MO = [r'struct\s+parse_options\b'], [r'struct\s+match_options\b']
for n in ('verbose', 'skip_whitespace', 'skip_newline'):
    F('parse_options__set_' + n, r'constexpr parse_options& set_%s\(bool val = true\)' % n, 'struct parse_options* parse_options__set_%s(struct parse_options* self, bool val)' % n, [member(n), THIS], PO)
F('match_options__set_verbose', r'constexpr match_options& set_verbose\(bool val = true\)', 'struct match_options* match_options__set_verbose(struct match_options* self, bool val)', [member('verbose'), THIS], MO)
NT = [r'class\s+nterm\s*(?=\{)']
F('nterm__ctor', r'constexpr nterm\(const char\* name\)', 'void nterm__ctor(struct nterm* self, const char* name)', [MEMB], NT, ctor=True)
F('nterm__get_name', r'constexpr const char\* get_name\(\)', 'const char* nterm__get_name(const struct nterm* self)', [member('name')], NT)

PRELUDE = r'''
int vx_thrown;
typedef const void* vx_val;       /* R13: an opaque C++ value, identified by a ghost id */
struct source_point { vx_sp_line_t line; vx_sp_col_t column; };   /* member types from the real declaration (R16) */
struct term_value { vx_val value; struct source_point sp; };
struct recognized_term { size16_t term_idx; vx_rt_len_t len; };   /* member type from the real declaration (R16) */
struct parse_options { bool verbose; bool skip_whitespace; bool skip_newline; };
struct match_options { bool verbose; };
struct nterm { const char* name; };
@@EV_ENUM@@
/* R10: ghost record of what was written to the stream */
int g_ev_n, g_ev_kind; unsigned long g_ev_a, g_ev_b, g_ev_c;
static inline void vx_emit(int kind, unsigned long a, unsigned long b, unsigned long c) { if (g_ev_n < 1000) g_ev_n++; g_ev_kind = kind; g_ev_a = a; g_ev_b = b; g_ev_c = c; }
'''
UNIT = Unit('values', PRELUDE, fns)
UNIT.typedefs = PC.RT_TYPEDEFS
UNIT.facts = [PC.FACTS[7], PC.FACTS[8], PC.FACTS[9], r'private:\s*VT value;\s*source_point sp;\s*\};', r'bool verbose = false;\s*constexpr match_options& set_verbose',
              r'private:\s*const char\* name;\s*\};\s*enum class associativity']
apply_spec(UNIT.fns, os.path.join(HERE, '..', 'contracts', 'values.spec'))
