"""unit reductors: detail::value_reductors -- how a reduction reaches the user's functor: invoke -> reductors[i] ->
reduce_value<RuleIdx,..> -> reduce_value_impl -> f(args...).
R13 + R20: values are opaque, but their *value category* is tracked: std::move(x) / std::forward<T>(x) vs. the bare name.
The argument pack `std::get<RValueType>(std::move(*(start + I)))...` is the ghost pack (start, n, rvalue); without the std::move it
is (start, n, lvalue).  `if constexpr` on template parameters becomes `if` on ghost parameters (R9)."""
import os, sys, re
sys.path.insert(0, os.path.dirname(os.path.abspath(__file__)))
from vx.core import Fn, Unit, apply_spec
from vx.lower import S, Call, ExtractionBreak, split_top

HERE = os.path.dirname(os.path.abspath(__file__))
fns = []
VR = [r'struct\s+value_reductors\s*(?=\{)']
CTX = [S(r'std::forward<Context>\((ctx|context)\)', r'VX_FWD_\1', min=0, name='R20:std::forward<Context>(x) keeps the value category'),
       S(r'(?<![\w.>])(ctx|context)\b', r'vx_lvalue(\1)', min=0, name='R20:a bare parameter name is an lvalue'),
       S(r'VX_FWD_(ctx|context)', r'\1', min=0, name='R20:forwarded')]


def _ret(m, parts):
    inner = m.group(0)
    if len(parts) != 1:
        raise ExtractionBreak('LValueType(...) of an unexpected shape')
    e = parts[0].strip()
    if e.startswith('f('):
        args = [a.strip() for a in split_top(e[2:-1], ',')]
        if len(args) == 2:
            return 'return vx_invoke_ctx(f, %s, %s)' % (args[0], args[1])
        if len(args) == 1:
            return 'return vx_invoke(f, %s)' % args[0]
        raise ExtractionBreak('functor call of an unexpected shape: %r' % e)
    return 'return vx_construct(%s)' % e


IMPL = [S(r'std::get<RValueType>\(std::move\(\*\(start \+ I\)\)\)\.\.\.', 'vx_pack(start, VX_RVALUE)', min=0, name='R20:pack of moved stack slots'),
        S(r'std::get<RValueType>\(\*\(start \+ I\)\)\.\.\.', 'vx_pack(start, VX_LVALUE)', min=0, name='R20:pack of stack slots passed as lvalues'),
        S(r'if constexpr \(std::is_same_v<F, std::nullptr_t>\)', 'if (P_F_IS_NULLPTR)', name='R17:if constexpr on F'),
        S(r'if constexpr \(RequiresContext\)', 'if (P_REQUIRES_CONTEXT)', name='R17:if constexpr on RequiresContext'),
        S(r'\bf\(ctx,', 'f(VX_BARE_ctx,', min=0), S(r'\bf\(std::forward<Context>\(ctx\),', 'f(VX_FWD_ctx,', min=0),
        S(r'VX_BARE_ctx', 'vx_lvalue(ctx)', min=0), S(r'VX_FWD_ctx', 'ctx', min=0),
        Call(r'return LValueType', _ret, min=3, name='R13:LValueType(e) -> the value e constructs')]


def F(name, header, csig, rules=(), **kw):
    fns.append(Fn(name=name, header=header, csig=csig, scope=VR, rules=list(rules), between_ok=kw.pop('between_ok', r'\s*(const)?\s*'), **kw))


F('reduce_value_impl', r'constexpr static LValueType reduce_value_impl\(\[\[maybe_unused\]\] Context&& ctx, \[\[maybe_unused\]\] const F& f, ValueVariantType\* start, std::index_sequence<I\.\.\.>\)',
  'vx_val reduce_value_impl(struct vx_ref ctx, vx_val f, vx_val* start)', IMPL)
F('reduce_value', r'constexpr static ValueVariantType reduce_value\(Context&& ctx, const RuleTupleType& rules, ValueVariantType\* start\)',
  'vx_val reduce_value(size_t RuleIdx, struct vx_ref ctx, const struct vx_rules* rules, vx_val* start)',
  CTX + [S(r'std::get<RuleIdx>\(rules\)\.get_f\(\)', 'vx_rule_f(rules, RuleIdx)', name='R13:std::get<RuleIdx>(rules).get_f()'),
         S(r'reduce_value_impl<RequiresContext, F, LValueType, RValueType\.\.\.>\(', 'reduce_value_impl(', name='R9:template arguments'),
         S(r',\s*std::index_sequence_for<RValueType\.\.\.>\{\}', '', name='R18:index_sequence argument'),
         S(r'return ValueVariantType\(', 'return (', name='R13:variant construction')])
F('value_reductors__invoke', r'constexpr ValueVariantType invoke\(Context&& context, size_t i, ValueVariantType\* args\)',
  'vx_val value_reductors__invoke(const struct value_reductors* self, struct vx_ref context, size_t i, vx_val* args)',
  CTX + [Call(r'return reductors\[i\]', 'return vx_call_reductor(self->reductors[vx_idx(i, P_RULES)], {args})', name='R14:call through the reductor table'),
         S(r'\brule_tuple\b', 'self->rule_tuple', name='R4:member')])
F('value_reductors__init_nth_reductor', r'constexpr void init_nth_reductor\(const detail::rule<RequiresContext, F, L, R\.\.\.>&\)',
  'void value_reductors__init_nth_reductor(struct value_reductors* self, size_t Nr)',
  [S(r'reductors\[Nr\] = &reduce_value<Nr, RequiresContext, F, value_type_t<L>, value_type_t<R>\.\.\.>;', 'self->reductors[vx_idx(Nr, P_RULES)] = vx_reduce_value_instance(Nr);', name='R13:function template instance -> ghost id')])

F('value_reductors__init_reductors', r'constexpr void init_reductors\(const RuleTupleType& rule_tuple, std::index_sequence<I\.\.\.>\)',
  'void value_reductors__init_reductors(struct value_reductors* self, const struct vx_rules* rule_tuple)',
  [S(r'\(void\(init_nth_reductor<I>\(std::get<I>\(rule_tuple\)\)\), \.\.\.\);', 'for (size_t I = 0; I < P_RULES; ++I) VX_INIT_LOOP { value_reductors__init_nth_reductor(self, I); }', name='R21:pack expansion over I -> loop')])
fns.append(Fn(name='value_reductors__ctor', header=r'constexpr value_reductors\(const RuleTupleType& rule_tuple\)', csig='void value_reductors__ctor(struct value_reductors* self, const struct vx_rules* rule_tuple)', scope=VR, ctor=True,
              rules=[Call(r'VX_INIT__(\w+)', 'self->{m1} = ({args})', name='R19:member initializer'),
                     S(r'init_reductors\(rule_tuple, std::make_index_sequence<std::tuple_size_v<RuleTupleType>>\{\}\);', 'value_reductors__init_reductors(self, rule_tuple);', name='R18:index_sequence argument')]))

PRELUDE = r'''
int vx_thrown;
static inline size_t vx_idx(size_t i, size_t n) { __CPROVER_assert(i < n, "VX_BOUND subscript within the declared (logical) dimension"); return i; }
typedef const void* vx_val;
enum { VX_LVALUE = 1, VX_RVALUE = 2 };
struct vx_ref { vx_val v; int cat; };          /* a forwarding-reference argument: the object and how it was passed */
static inline struct vx_ref vx_lvalue(struct vx_ref r) { struct vx_ref x = { r.v, VX_LVALUE }; return x; }
struct vx_pack_t { vx_val* start; int cat; };  /* the argument pack: the stack slots start[0 .. sizeof...(RValueType)) and how each is passed */
static inline struct vx_pack_t vx_pack(vx_val* start, int cat) { struct vx_pack_t p = { start, cat }; return p; }
#define PH_RULES 8
size_t P_RULES; bool P_F_IS_NULLPTR, P_REQUIRES_CONTEXT;     /* ghost template parameters (R9) */
struct vx_rules { vx_val f[PH_RULES]; };       /* the rule tuple: rule k's functor */
static inline vx_val vx_rule_f(const struct vx_rules* r, size_t k) { __CPROVER_assert(k < P_RULES, "VX_BOUND rule index"); return r->f[k]; }
struct value_reductors { const struct vx_rules* rule_tuple; vx_val reductors[PH_RULES]; };
char vx_inst_pool[PH_RULES];
static inline vx_val vx_reduce_value_instance(size_t k) { return (vx_val)(vx_inst_pool + k); }
size_t g_k;
#define VX_INIT_LOOP \
  __CPROVER_assigns(I, __CPROVER_object_upto(self->reductors, sizeof(self->reductors))) \
  __CPROVER_loop_invariant(I <= P_RULES && (g_k < I ==> self->reductors[g_k] == (vx_val)(vx_inst_pool + g_k))) \
  __CPROVER_decreases(P_RULES - I)
/* ghost record of the one call that leaves the function */
int g_calls, g_kind; vx_val g_f, g_res, g_target; struct vx_ref g_ctx; struct vx_pack_t g_args; const struct vx_rules* g_rules; vx_val* g_start;
enum { VX_K_CONSTRUCT = 1, VX_K_F = 2, VX_K_F_CTX = 3, VX_K_REDUCTOR = 4 };
static inline vx_val vx_construct(struct vx_pack_t a) { g_calls++; g_kind = VX_K_CONSTRUCT; g_args = a; return g_res; }
static inline vx_val vx_invoke(vx_val f, struct vx_pack_t a) { g_calls++; g_kind = VX_K_F; g_f = f; g_args = a; return g_res; }
static inline vx_val vx_invoke_ctx(vx_val f, struct vx_ref c, struct vx_pack_t a) { g_calls++; g_kind = VX_K_F_CTX; g_f = f; g_ctx = c; g_args = a; return g_res; }
static inline vx_val vx_call_reductor(vx_val target, struct vx_ref c, const struct vx_rules* rules, vx_val* args) { g_calls++; g_kind = VX_K_REDUCTOR; g_target = target; g_ctx = c; g_rules = rules; g_start = args; return g_res; }
'''
UNIT = Unit('reductors', PRELUDE, fns)
UNIT.facts = [r'const RuleTupleType& rule_tuple;\s*using value_reductor = ValueVariantType\(\*\)\(Context&&, const RuleTupleType&, ValueVariantType\*\);\s*value_reductor reductors\[RuleCount\] = \{\};']
apply_spec(UNIT.fns, os.path.join(HERE, '..', 'contracts', 'reductors.spec'))

# ---- native replay twin: a copy-counting value type through all three kinds of rule
from vx import native as _N


def _twin_moves(o):
    return _N.TWIN_HEAD + r"""#include <sstream>
using namespace ctpg::buffers;
static int copies = 0;
struct tracked { int v = 0; tracked() = default; explicit tracked(int v) : v(v) {} tracked(tracked&& o) noexcept : v(o.v) {} tracked& operator=(tracked&& o) noexcept { v = o.v; return *this; }
                 tracked(const tracked& o) : v(o.v) { ++copies; } tracked& operator=(const tracked& o) { v = o.v; ++copies; return *this; } };
struct cx { int base; };
constexpr nterm<tracked> list("list"); constexpr nterm<tracked> item("item"); constexpr nterm<tracked> wrap("wrap");
constexpr parser p(wrap, terms('x', ','), nterms(wrap, list, item), rules(
    wrap(list),                                                                            // no functor: constructed from the right side
    list(item) >= [](tracked t) { return t; },                                             // plain functor, by value
    list(list, ',', item) >>= [](const cx& c, tracked a, skip, tracked b) { return tracked(a.v + b.v + c.base); },   // context functor, by value
    item('x') >= [](skip) { return tracked(1); }));
int main() {
    string_buffer buf("x, x, x, x");
    std::stringstream err;
    auto r = p.context_parse(cx{0}, buf, err);
    std::printf("result %d (wanted 4), copies of semantic values made by the parser: %d (wanted 0)\n", r ? r->v : -1, copies);
    return (r && r->v == 4 && copies == 0) ? 0 : 1;
}"""


for _f in fns:
    _f.twin = _twin_moves
