"""shared by the units that lower members of class parser<...> (driver, state_analyzer, diag):
R9 constants with their real initialiser expressions, struct layouts checked against the real text."""
from vx.lower import S

PARSER = [r'class\s+parser<\s*nterm<RootValueType>,\s*std::tuple<Terms\.\.\.>,\s*std::tuple<NTerms\.\.\.>,\s*std::tuple<Rules\.\.\.>,\s*LexerUsage,\s*Limits\s*>']

# R9: pack-derived quantities -> ghost parameters
CONST_RULES = [
    S(r'sizeof\.\.\.\(Terms\)', 'P_TERMS', min=0),
    S(r'sizeof\.\.\.\(NTerms\)', 'P_NTERMS', min=0),
    S(r'sizeof\.\.\.\(Rules\)', 'P_RULES', min=0),
    S(r'meta::max_v<1,\s*Rules::n\.\.\.>', 'P_MAXLEN', min=0),            # max(1, longest rule): P_MAXLEN >= 1 in VX_PARAMS_OK is this `1`
    S(r'meta::max_v<Rules::n\.\.\.>', 'P_MAXRULE0', min=0),               # without the 1: the longest user rule, possibly 0
    S(r'meta::count_zeros<Rules::n\.\.\.>', 'P_EMPTY', min=0),
    S(r'\(0 \+ \.\.\. \+ \(Rules::n \+ 1\)\)', 'P_SUM_N1', min=0),
    S(r'get_limits<Limits,\s*situation_count>::state_count_cap', 'P_STATE_CAP', min=0),
    S(r'get_limits<Limits,\s*situation_count>::max_sit_count_per_state_cap', 'P_SIT_CAP', min=0),
]


def const(name, ctype=r'[\w:]+'):
    return (name, r'static\s+const\s+%s\s+%s\s*=\s*([^;]+);' % (ctype, name), PARSER)


CONSTS = [const(n) for n in ('max_rule_element_count', 'eof_idx', 'error_recovery_token_idx', 'term_count', 'fake_root_idx',
                             'nterm_count', 'symbol_count', 'root_rule_idx', 'rule_count', 'empty_rules_count', 'situation_size',
                             'situation_address_space_size', 'situation_count', 'state_count_cap', 'max_sit_count_per_state_cap')]

ENUMS = [('parse_table_entry_kind', r'enum\s+class\s+parse_table_entry_kind\s*:\s*size8_t\s*\{([^}]*)\}', PARSER),
         ('associativity', r'enum\s+class\s+associativity\s*\{([^}]*)\}', None)]

# struct layouts the prelude re-declares; each must still be what the header says (else extraction break)
FACTS = [
    r'struct rule_info\s*\{\s*size16_t l_idx = uninitialized16;\s*size16_t r_idx = uninitialized16;\s*size16_t r_elements = uninitialized16;\s*\};',
    r'struct parse_table_entry\s*\{\s*parse_table_entry_kind kind = parse_table_entry_kind::error;\s*size16_t arg = uninitialized16;\s*size8_t has_sr_conflict = 0;\s*size16_t sr_conflict_rule_info_idx = uninitialized16;\s*\};',
    r'struct situation_info\s*\{\s*size16_t rule_info_idx = uninitialized16;\s*size16_t after = uninitialized16;\s*size16_t t = uninitialized16;\s*\};',
    r'bool term;\s*size16_t idx;\s*\};',
    r'struct grammar_info\s*\{\s*symbol right_sides\[rule_count\]\[max_rule_element_count\] = \{ \};\s*rule_info rule_infos\[rule_count\] = \{ \};\s*utils::slice nterm_rule_slices\[nterm_count\] = \{ \};\s*\w+ term_precedences\[term_count\] = \{ \};\s*associativity term_associativities\[term_count\] = \{ \};\s*\w+ rule_precedences\[rule_count\] = \{ \};\s*associativity rule_associativities\[rule_count\] = \{ \};\s*size16_t rule_last_terms\[rule_count\] = \{ \};\s*\};',
    r'struct slice\s*\{\s*size32_t start;\s*size32_t n;\s*\};',
    r'using lr1_parse_table = parse_table_entry\[state_count_cap\]\[symbol_count\];',
    r'struct source_point\s*\{\s*\w+ line = 1;\s*\w+ column = 1;',
    r'bool verbose = false;\s*bool skip_whitespace = true;\s*bool skip_newline = true;\s*\};',
    r'size16_t term_idx = uninitialized16;\s*\w+ len = uninitialized16;\s*\};',
]

RT_TYPEDEFS = [('vx_sp_line_t', r'struct source_point\s*\{\s*(\w+) line = 1;', None), ('vx_sp_col_t', r'struct source_point\s*\{\s*\w+ line = 1;\s*(\w+) column = 1;', None), ('vx_tprec_t', r'(\w+) term_precedences\[term_count\] = \{ \};', None), ('vx_rprec_t', r'(\w+) rule_precedences\[rule_count\] = \{ \};', None), ('vx_rt_len_t', r'size16_t term_idx = uninitialized16;\s*(\w+) len = uninitialized16;\s*\};', None)]
UNINIT = [('uninitialized', r'constexpr\s+size_t\s+uninitialized\s*=\s*([^;]+);', None),
          ('uninitialized16', r'constexpr\s+size16_t\s+uninitialized16\s*=\s*([^;]+);', None),
          ('uninitialized32', r'constexpr\s+size32_t\s+uninitialized32\s*=\s*([^;]+);', None)]


def types(ph_states, ph_syms, ph_rules, ph_maxlen, ph_terms, ph_nterms):
    return r'''
/* physical maxima of the template-derived dimensions (R9) */
#define PH_STATES %d
#define PH_SYMS %d
#define PH_RULES %d
#define PH_MAXLEN %d
#define PH_TERMS %d
#define PH_NTERMS %d
/* ghost template parameters (R9): sizeof...(Terms), sizeof...(NTerms), sizeof...(Rules), max rule length, ... */
size_t P_TERMS, P_NTERMS, P_RULES, P_MAXLEN, P_EMPTY, P_SUM_N1, P_STATE_CAP, P_SIT_CAP, P_BUFN, P_MAXRULE0;
#define VX_PARAMS_OK (P_TERMS <= PH_TERMS - 2 && P_NTERMS <= PH_NTERMS - 1 && P_RULES <= PH_RULES - 1 && P_MAXLEN >= 1 && P_MAXLEN <= PH_MAXLEN \
   && P_EMPTY <= P_RULES && P_STATE_CAP >= 1 && P_STATE_CAP <= PH_STATES && PH_TERMS + PH_NTERMS <= PH_SYMS)
struct rule_info { size16_t l_idx; size16_t r_idx; size16_t r_elements; };
struct symbol { bool term; size16_t idx; };
struct utils__slice { size32_t start; size32_t n; };
struct parse_table_entry { uint8_t kind; size16_t arg; size8_t has_sr_conflict; size16_t sr_conflict_rule_info_idx; };
struct situation_info { size16_t rule_info_idx; size16_t after; size16_t t; };
struct grammar_info {
  struct symbol right_sides[PH_RULES][PH_MAXLEN];
  struct rule_info rule_infos[PH_RULES];
  struct utils__slice nterm_rule_slices[PH_NTERMS];
  vx_tprec_t term_precedences[PH_TERMS];    /* element type from the real declaration (R16) */
  int term_associativities[PH_TERMS];
  vx_rprec_t rule_precedences[PH_RULES];    /* element type from the real declaration (R16) */
  int rule_associativities[PH_RULES];
  size16_t rule_last_terms[PH_RULES];
};
struct source_point { vx_sp_line_t line; vx_sp_col_t column; };   /* member types from the real declaration (R16) */
struct parse_options { bool verbose; bool skip_whitespace; bool skip_newline; };
struct match_options { bool verbose; };
struct recognized_term { size16_t term_idx; vx_rt_len_t len; };   /* member type from the real declaration (R16) */
static inline size_t vx_idx(size_t i, size_t n) { __CPROVER_assert(i < n, "VX_BOUND subscript within the declared (logical) dimension"); return i; }
''' % (ph_states, ph_syms, ph_rules, ph_maxlen, ph_terms, ph_nterms)
