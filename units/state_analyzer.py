"""unit state_analyzer: LR(1) table construction (parser::state_analyzer) and the grammar analysis helpers of class parser.
R3: the one state_analyzer instance and the parser's members become globals with the same names."""
import os, sys, re
sys.path.insert(0, os.path.dirname(os.path.abspath(__file__)))
from vx.core import Fn, Unit, apply_spec
from vx.lower import S, Call, Bound, RangeFor
import pcommon as PC
import stdex as SX

HERE = os.path.dirname(os.path.abspath(__file__))
PARSER = PC.PARSER
SA = PARSER + [r'struct\s+state_analyzer\b']

# ---- R4: method calls on the multi-instance classes (cbitset, cvector<size32_t>) ----
def bitset_calls(obj_re, name):
    def repl(m, parts):
        meth = {'operator==': 'eq'}.get(m.group(2), m.group(2))
        return 'cbitset_%s(&%s%s)' % (meth, m.group(1), (', ' + ', '.join(parts)) if parts else '')
    return Call(r'(?<![\w.>])(%s)\.(test|set|reset|add)' % obj_re, repl, min=0, name='R4:cbitset.%s' % name)


def sitvec_calls(obj_re, name):
    def repl(m, parts):
        meth = m.group(2)
        call = 'sitvec_%s(&%s%s)' % (meth, m.group(1), (', ' + ', '.join(parts)) if parts else '')
        return call
    return Call(r'(?<![\w.>])(%s)\.(push_back|size)' % obj_re, repl, min=0, name='R4:sitvec.%s' % name)


BOUNDS = [
    Bound(r'gi\.rule_infos', ['rule_count']), Bound(r'gi\.right_sides', ['rule_count', 'max_rule_element_count']),
    Bound(r'gi\.nterm_rule_slices', ['nterm_count']), Bound(r'gi\.term_precedences', ['term_count']), Bound(r'gi\.term_associativities', ['term_count']),
    Bound(r'gi\.rule_precedences', ['rule_count']), Bound(r'gi\.rule_associativities', ['rule_count']), Bound(r'gi\.rule_last_terms', ['rule_count']),
    Bound(r'parse_table', ['state_count_cap', 'symbol_count']), Bound(r'simple_states', ['state_count_cap']), Bound(r'states__all_situations_vec', ['state_count_cap']), Bound(r'states__kernel', ['state_count_cap']), Bound(r'states__situations_by_symbol', ['state_count_cap', 'symbol_count']),
    Bound(r'closures', ['situation_address_space_size']), Bound(r'right_side_slice_first', ['situation_size * rule_count']),
    Bound(r'nterm_first', ['nterm_count']),
]
SI = [S(r'\bsituation_info\{', '(struct situation_info){', min=0, name='R16:situation_info'), S(r'\bsituation_info (\w+)\b', r'struct situation_info \1', min=0, name='R2:struct'),
      S(r'const rule_info& ri = ([^;]*);', r'const struct rule_info* ri = &(\1);', min=0, name='R5:ri'), S(r'\bri\.', 'ri->', min=0),
      S(r'\bconst symbol& (\w+) = ([^;]*);', r'const struct symbol* \1 = &(\2);', min=0, name='R5:symbol')]

fns = []


def F(name, header, csig, rules=(), scope=PARSER, **kw):
    f = Fn(name=name, header=header, csig=csig, scope=scope, rules=list(rules) + SI + BOUNDS, between_ok=kw.pop('between_ok', r'\s*'), **kw)
    fns.append(f)
    return f


F('get_parse_table_idx', r'constexpr\s+static\s+size16_t\s+get_parse_table_idx\(bool term,\s*size16_t idx\)', 'size16_t get_parse_table_idx(bool term, size16_t idx)')
F('make_situation_idx', r'constexpr\s+static\s+size32_t\s+make_situation_idx\(situation_info info\)', 'size32_t make_situation_idx(struct situation_info info)')
F('make_situation_info', r'constexpr\s+static\s+situation_info\s+make_situation_info\(size32_t idx\)', 'struct situation_info make_situation_info(size32_t idx)')
F('solve_conflict', r'constexpr\s+auto\s+solve_conflict\(size16_t rule_info_idx,\s*size16_t term_idx\)\s*const', 'uint8_t solve_conflict(size16_t rule_info_idx, size16_t term_idx)', scope=SA)
F('calculate_rule_last_term', r'constexpr\s+size16_t\s+calculate_rule_last_term\(size16_t rule_idx,\s*size16_t rule_size\)\s*const', 'size16_t calculate_rule_last_term(size16_t rule_idx, size16_t rule_size)',
  rules=[S(r'const auto& s = ([^;]*);', r'const struct symbol* s = &(\1);', name='R5'), S(r'\bs\.', 's->')])
F('calculate_rule_precedence', r'constexpr\s+int\s+calculate_rule_precedence\(int precedence,\s*size16_t rule_idx\)\s*const', 'int calculate_rule_precedence(int precedence, size16_t rule_idx)')
F('calculate_rule_associativity', r'constexpr\s+associativity\s+calculate_rule_associativity\(size16_t rule_idx\)\s*const', 'int calculate_rule_associativity(size16_t rule_idx)')
F('make_nterm_rule_slices', r'constexpr\s+void\s+make_nterm_rule_slices\(\)', 'void make_nterm_rule_slices(void)')

# stdex::sort<Container, Pred> instantiated at its one call site: sort(gi.rule_infos, <lambda>) (R14: the lambda's real body becomes VX_SORT_PRED)
F('stdex__sort', r'constexpr\s+Container&\s+sort\(Container& c,\s*Pred p\)', 'void stdex__sort_rule_infos(void)', scope=None,
  rules=[S(r'std::size\(c\)', 'rule_count', name='R15:std::size'), S(r'\bp\(c\[i \+ 1\], c\[i\]\)', 'VX_SORT_PRED(c[i + 1], c[i])', name='R14:pred'),
         S(r'auto x = ', 'struct rule_info x = ', name='R6'), S(r'return c;', 'return;', name='R5:return-ref'), S(r'\bc\[', 'gi.rule_infos[', min=5, name='R5:container')])
fns[-1].name = 'stdex__sort_rule_infos'

SITVEC_OBJS = r'states__all_situations_vec\[[^\]]*\]|states__situations_by_symbol\[[^\]]*\]\[[^\]]*\]|closures\[[^\]]*\]|kernel_vec|symbol_situations|s\.all_situations_vec'
BITSET_OBJS = r'simple_states\[[^\]]*\]|states__kernel\[[^\]]*\]|closures_analyzed|right_side_slice_empty_analyzed|right_side_slice_empty|right_side_slice_first_analyzed|nterm_empty_analyzed|nterm_empty|nterm_first_analyzed|kernel|first'
SOA = S(r'\bstates\[([^\]]*)\]\.(all_situations_vec|kernel|situations_by_symbol)', r'states__\2[\1]', min=0, name='R3:state fields as separate arrays')
OBJ = [SOA, sitvec_calls(SITVEC_OBJS, 'objs'), bitset_calls(BITSET_OBJS, 'objs'), 
       S(r'\b(\w+)\.get_parse_table_idx\(\)', r'symbol__get_parse_table_idx(*\1)', min=0, name='R4:symbol.get_parse_table_idx')]

F('symbol__get_parse_table_idx', r'constexpr\s+size16_t\s+get_parse_table_idx\(\)\s*const', 'size16_t symbol__get_parse_table_idx(struct symbol self)', scope=PARSER + [r'struct\s+symbol\b'],
  rules=[S(r'parser::get_parse_table_idx\(term, idx\)', 'get_parse_table_idx(self.term, self.idx)', name='R4:members')])
F('add_situation', r'constexpr\s+bool\s+add_situation\(size16_t state_idx,\s*size32_t sit_idx,\s*bool to_kernel\)', 'bool add_situation(size16_t state_idx, size32_t sit_idx, bool to_kernel)', scope=SA, rules=OBJ)


TRANS_RULES = [
    RangeFor([(r'symbol_situations', 'symbol_situations->current_size', 'symbol_situations->the_data[{i}]', 'size32_t', False),
              (r'kernel_vec', 'kernel_vec.current_size', 'kernel_vec.the_data[{i}]', 'size32_t', False)], min=2),
    S(r'(?<![\w.>])symbol_situations\.size\(\)', 'sitvec_size(symbol_situations)', name='R4:size'),
    S(r'situation_set kernel;', 'struct cbitset kernel = cbitset__default(situation_address_space_size);', name='R16:situation_set{}'),
    S(r'situation_vector kernel_vec;', 'struct sitvec kernel_vec = sitvec__default();', name='R16:situation_vector{}'),
    S(r'auto& entry = ([^;]*);', r'struct parse_table_entry* entry = &(\1);', name='R5:entry'), S(r'\bentry\.', 'entry->', min=5),
    S(r'const auto& sm = ([^;]*);', r'const struct symbol* sm = &(\1);', name='R5:sm'), S(r'\bsm\.(idx|term)\b', r'sm->\1', name='R5:sm.member'),
    S(r'states\[i\]\.kernel == kernel', 'cbitset_eq(&states__kernel[i], &kernel)', name='R4:cbitset=='),
    S(r'entry->has_sr_conflict = true;', 'entry->has_sr_conflict = 1;', min=2, name='R15:bool->size8_t'),
    S(r'(?<![\w.])add_situation\(new_state_idx,', 'vx_add_situation_any(new_state_idx,', min=0, name='abstract callee: add_situation (its own contract is for one ghost-decoded item)'),
]
F('transitions', r'constexpr\s+void\s+transitions\(size16_t state_idx,\s*size16_t symbol_idx,\s*const situation_vector& symbol_situations\)',
  'void transitions(size16_t state_idx, size16_t symbol_idx, const struct sitvec* symbol_situations)', scope=SA, rules=TRANS_RULES + OBJ)


CLOSURE_RULES = [
    S(r'closures\[([^\]]*)\]\[([^\]]*)\]', r'(*sitvec_at(&closures[\1], \2))', name='R4:closures[s][i]'),
    S(r'const utils::slice& sl = ([^;]*);', r'const struct utils__slice* sl = &(\1);', name='R5:sl'), S(r'\bsl\.', 'sl->', min=3),
    S(r'const term_subset& first = make_right_side_slice_first\(ri,', 'const struct cbitset* first = vx_rss_first(ri,', name='R5:first / abstract callee'),
    S(r'(?<![\w.>])first\.test\(', 'cbitset_test(first, ', min=2, name='R4:first.test'),
    S(r'make_right_side_slice_empty\(ri,', 'vx_rss_empty(ri,', min=0, name='abstract callee: make_right_side_slice_empty'),
    S(r'(?<![\w.])add_situation\(state_idx,', 'vx_add_situation_any(state_idx,', min=0, name='abstract callee: add_situation'),
    S(r'\bsm\.(idx|term)\b', r'sm->\1', min=2, name='R5:sm.member'),
    S(r'(?<![\w.])make_situation_idx\(', 'vx_enc(', min=0, name='abstract callee: make_situation_idx (any encoding)'),
]
F('closure', r'constexpr\s+void\s+closure\(size16_t state_idx,\s*size32_t sit_idx\)', 'void closure(size16_t state_idx, size32_t sit_idx)', scope=SA, rules=CLOSURE_RULES + OBJ)


# ---- FIRST / nullable (mutually recursive, memoised): each is verified with the other three replaced by abstract contracts over ghost tables
FN_COMMON = [S(r'\bs\.(term|idx|start|n)\b', r's->\1', min=0, name='R5:s.member'),
             S(r'const utils::slice& s = ([^;]*);', r'const struct utils__slice* s = &(\1);', min=0, name='R5:slice&')]
F('make_right_side_slice_first', r'constexpr\s+const\s+term_subset&\s+make_right_side_slice_first\(const rule_info& ri,\s*size_t start\)',
  'const struct cbitset* make_right_side_slice_first(const struct rule_info* ri, size_t start)', scope=SA,
  rules=[S(r'auto& res = ([^;]*);', r'struct cbitset* res = &(\1);', name='R5:res'), S(r'\bres\.(set|add)\(', r'cbitset_\1(res, ', min=2, name='R4:res.method'),
         S(r'make_nterm_first\(', 'vx_nterm_first(', min=0, name='abstract callee: make_nterm_first'), S(r'make_nterm_empty\(', 'vx_nterm_empty(', min=0, name='abstract callee: make_nterm_empty'),
         S(r'\bri\.', 'ri->', min=3)] + FN_COMMON + OBJ)
F('make_nterm_first', r'constexpr\s+const\s+term_subset&\s+make_nterm_first\(size16_t nt\)', 'const struct cbitset* make_nterm_first(size16_t nt)', scope=SA,
  rules=[Call(r'nterm_first\[nt\]\.add', 'cbitset_add(&nterm_first[nt], {0})', name='R4:add'), S(r'make_right_side_slice_first\(ri, 0\)', 'vx_rss_first0(ri, 0)', min=0, name='abstract callee: make_right_side_slice_first'),
         S(r'return nterm_first\[nt\];', 'return &nterm_first[nt];', min=2, name='R5:return-ref')] + FN_COMMON + OBJ)
F('make_right_side_slice_empty', r'constexpr\s+bool\s+make_right_side_slice_empty\(const rule_info& ri,\s*size_t start\)', 'bool make_right_side_slice_empty(const struct rule_info* ri, size_t start)', scope=SA,
  rules=[S(r'auto idx = ', 'size_t idx = ', name='R6'), S(r'make_nterm_empty\(', 'vx_nterm_empty(', min=0, name='abstract callee: make_nterm_empty'), S(r'\bri\.', 'ri->', min=3)] + FN_COMMON + OBJ)
F('make_right_side_empty', r'constexpr\s+bool\s+make_right_side_empty\(const rule_info& ri\)', 'bool make_right_side_empty(const struct rule_info* ri)', scope=SA,
  rules=[S(r'\bmake_right_side_slice_empty\(', 'vx_slice_empty_rec(', min=0, name='abstract callee: make_right_side_slice_empty (ghost record)')])
F('make_nterm_empty', r'constexpr\s+bool\s+make_nterm_empty\(size16_t nt\)', 'bool make_nterm_empty(size16_t nt)', scope=SA,
  rules=[S(r'make_right_side_empty\(gi\.rule_infos\[([^\]]*)\]\)', r'vx_rs_empty0(&gi.rule_infos[\1])', name='abstract callee: make_right_side_empty')] + FN_COMMON + OBJ)


AS_RULES = [
    S(r'situation_info root_situation_info\{([^}]*)\};', r'situation_info root_situation_info = {\1};', name='R16:braced-init'),
    S(r'state& s = states\[current_state\];', '', name='R3:state& (fields are separate arrays)'),
    S(r'\bs\.all_situations_vec\.size\(\)', 'states__all_situations_vec[current_state].current_size', name='R4:size'),
    S(r'\bs\.all_situations_vec\[i\]', 'states__all_situations_vec[current_state].the_data[vx_idx(i, states__all_situations_vec[current_state].current_size)]', name='R4:operator[]'),
    S(r'\bs\.situations_by_symbol\[symbol_idx\]', '&states__situations_by_symbol[current_state][symbol_idx]', name='R5:ref-arg'),
    S(r'(?<![\w.])closure\(', 'vx_closure_any(', min=0, name='abstract callee: closure'), S(r'(?<![\w.])transitions\(', 'vx_transitions_any(', min=0, name='abstract callee: transitions'),
    S(r'(?<![\w.])add_situation\(', 'vx_add_situation_root(', min=0, name='abstract callee: add_situation'),
]
F('analyze_states', r'constexpr\s+size16_t\s+analyze_states\(\)', 'size16_t analyze_states(void)', scope=SA, rules=AS_RULES)


def key_fragment(rx):
    def frag(body):
        m = re.search(rx, body)
        if not m:
            raise Exception('memo key expression not found')
        return '{ return ' + m.group(1) + '; }'
    return frag


# fragments: the memo-key expressions of the FIRST / nullable slice memo tables (C01 memo-key/injective)
F('vx_first_key', r'constexpr\s+const\s+term_subset&\s+make_right_side_slice_first\(const rule_info& ri,\s*size_t start\)', 'size_t vx_first_key(const struct rule_info* ri, size_t start)', scope=SA,
  fragment=key_fragment(r'size_t right_side_slice_idx = ([^;]+);'), rules=[S(r'\bri\.', 'ri->')])
F('vx_empty_key', r'constexpr\s+bool\s+make_right_side_slice_empty\(const rule_info& ri,\s*size_t start\)', 'size_t vx_empty_key(const struct rule_info* ri, size_t start)', scope=SA,
  fragment=key_fragment(r'auto idx = ([^;]+);'), rules=[S(r'\bri\.', 'ri->')])

SMALL = os.environ.get('VX_UNIT_VARIANT') == 'small'
# physical maxima: (states, symbols, rules, max rule length, terms incl. eof/error, nterms incl. root); `small` is used for closure in the quick tier
SIZES = (2, 5, 3, 2, 3, 2) if SMALL else (2, 8, 4, 2, 4, 3)
PRELUDE = PC.types(*SIZES) + ('#define VX_PH_SAS %d\n' % (27 if SMALL else 48)) + r'''
int vx_thrown;
#define VX_CAP %d
''' % (6 if SMALL else 8) + SX.cvector_struct('sitvec', 'size32_t') + SX.cbitset_struct() + r'''
/* struct state { all_situations_vec; kernel; situations_by_symbol[symbol_count] } is lowered field by field (R3) */
#define PH_SAS VX_PH_SAS      /* physical situation address space (bits) */
#define PH_RSS 16      /* physical size of the right-side-slice memo tables */
/* ---- parser / state_analyzer members (R3) ---- */
struct grammar_info gi;
struct cbitset simple_states[PH_STATES];
struct parse_table_entry parse_table[PH_STATES][PH_SYMS];
struct sitvec states__all_situations_vec[PH_STATES]; struct cbitset states__kernel[PH_STATES]; struct sitvec states__situations_by_symbol[PH_STATES][PH_SYMS];
size16_t state_count;
struct cbitset closures_analyzed; struct sitvec closures[PH_SAS];
struct cbitset right_side_slice_empty_analyzed, right_side_slice_empty, right_side_slice_first_analyzed; struct cbitset right_side_slice_first[PH_RSS];
struct cbitset nterm_empty, nterm_empty_analyzed, nterm_first_analyzed; struct cbitset nterm_first[PH_NTERMS];
static inline struct cbitset cbitset__default(size_t n) { struct cbitset b = { n, { 0 } }; return b; }
static inline struct sitvec sitvec__default(void) { struct sitvec v; v.current_size = 0; v.N = max_sit_count_per_state_cap; return v; }
size_t g_k, g_j, g_y; struct rule_info g_rule; unsigned g_count;
''' + open(os.path.join(HERE, '..', 'contracts', 'state_analyzer.pre.h')).read()

CV = SX.make_cvector('sitvec', 'size32_t') + SX.make_cbitset()
for f in CV:
    f.harness, f.props = None, []
UNIT = Unit('state_analyzer', PRELUDE, CV + fns, consts=PC.UNINIT + PC.CONSTS + [('VX_SORT_PRED_BODY', r'stdex::sort\(gi\.rule_infos, \[\]\(const auto& ri1, const auto& ri2\) \{ return ([^;]+); \}\);', PARSER)])
UNIT.const_rules = PC.CONST_RULES
UNIT.enums = PC.ENUMS
UNIT.facts = PC.FACTS + SX.CB_FACTS
UNIT.typedefs = PC.RT_TYPEDEFS
apply_spec(UNIT.fns, os.path.join(HERE, '..', 'contracts', 'state_analyzer.spec'))
if SMALL:
    for f in UNIT.fns:          # the small variant exists for closure only
        if f.name != 'closure':
            f.harness = None
        else:
            f.tier = 'quick'
            f.timeout = 900      # the small instance takes 3-4 minutes; the 90-minute limit in the spec is for the full-size one
else:
    # closure at full physical size is a 10-40 minute SAT query whose run time varies a lot with unrelated changes of the unit text: it is
    # run for C01 in the thorough tier only; C08 / C11 / C12 (and C01's quick tier) use the small instance of the unit, same contract
    UNIT.fn('closure').props = ['C01']
