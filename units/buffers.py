"""unit buffers: the three buffer adaptors (C04/C07: the parse path sees the same byte sequence and the same lexeme view whatever
the buffer kind).  R7 lowers a buffer iterator to `const char*` in the driver; this unit puts the one-liners that justify it under
contract: cstring_buffer::iterator's operators, begin/end of the three buffers, the three get_view.
R12: std::string / std::string_view member -> struct vx_sv {p, n}; .data()/.begin()/.cbegin() -> p, .cend() -> p + n,
std::string_view(a, n) -> vx_mk_sv(a, n) (the meaning the standard gives them: trusted)."""
import os, sys, re
sys.path.insert(0, os.path.dirname(os.path.abspath(__file__)))
from vx.core import Fn, Unit, apply_spec
from vx.lower import S, Call
import pcommon as PC

HERE = os.path.dirname(os.path.abspath(__file__))
fns = []
CSB = [r'class\s+cstring_buffer\b']
CIT = CSB + [r'struct\s+iterator\b']
SB = [r'class\s+string_buffer\b']
SVB = [r'class\s+string_view_buffer\b']


def F(name, header, csig, rules=(), scope=None, **kw):
    f = Fn(name=name, header=header, csig=csig, scope=scope, rules=list(rules), **kw)
    fns.append(f)


PTR = S(r'(?<![\w.>])ptr\b', 'self->ptr', name='R4:member ptr')
THIS = S(r'return \*this;', 'return self;', name='R4:return *this')
COPY = S(r'iterator i\(\*this\);', 'struct cstring_it i = *self;', name='R4:iterator i(*this)')
OTHER = S(r'\bother\.ptr\b', 'other->ptr', name='R5:const iterator& other')
F('cstring_it__deref', r'constexpr char operator \*\(\)', 'char cstring_it__deref(const struct cstring_it* self)', [PTR], CIT)
F('cstring_it__preinc', r'constexpr iterator& operator \+\+\(\)', 'struct cstring_it* cstring_it__preinc(struct cstring_it* self)', [PTR, THIS], CIT)
F('cstring_it__postinc', r'constexpr iterator operator \+\+\(int\)', 'struct cstring_it cstring_it__postinc(struct cstring_it* self)', [PTR, COPY], CIT)
F('cstring_it__eq', r'constexpr bool operator == \(const iterator& other\)', 'bool cstring_it__eq(const struct cstring_it* self, const struct cstring_it* other)', [OTHER, PTR], CIT)
F('cstring_it__ne', r'constexpr bool operator != \(const iterator& other\)', 'bool cstring_it__ne(const struct cstring_it* self, const struct cstring_it* other)', [OTHER, PTR], CIT)
F('cstring_it__pluseq', r'constexpr iterator& operator \+= \(size_t len\)', 'struct cstring_it* cstring_it__pluseq(struct cstring_it* self, size_t len)', [PTR, THIS], CIT)
F('cstring_it__plus', r'constexpr iterator operator \+ \(size_t len\)', 'struct cstring_it cstring_it__plus(struct cstring_it* self, size_t len)', [COPY], CIT)

DATA = S(r'(?<![\w.>])data\b', 'self->data', name='R4:member data')
MKIT = S(r'return iterator\{([^}]*)\};', r'{ struct cstring_it vx_r = { \1 }; return vx_r; }', name='R4:iterator{..}')
NPAR = S(r'\bN\b', 'P_N', name='R9:template parameter N')
MKSV = Call(r'std::string_view', 'vx_mk_sv({args})', min=0, name='R12:string_view(p, n)')
SUBSTR = Call(r'\bstr\.substr', 'vx_sv_substr(self->str, {args})', min=0, name='R12:str.substr(pos, n)')
SIZE = S(r'\bstr\.(size|length)\(\)', 'self->str.n', min=0, name='R12:str.size()')
F('cstring_buffer__begin', r'constexpr iterator begin\(\)', 'struct cstring_it cstring_buffer__begin(const struct cstring_buffer* self)', [DATA, MKIT], CSB)
F('cstring_buffer__end', r'constexpr iterator end\(\)', 'struct cstring_it cstring_buffer__end(const struct cstring_buffer* self)', [DATA, MKIT, NPAR], CSB)
F('cstring_buffer__get_view', r'constexpr std::string_view get_view\(iterator start, iterator end\)',
  'struct vx_sv cstring_buffer__get_view(const struct cstring_buffer* self, struct cstring_it start, struct cstring_it end)', [MKSV], CSB)

STR = [SUBSTR, SIZE, S(r'\bstr\.(data|begin|cbegin)\(\)', 'self->str.p', min=0, name='R12:str.data()/begin()'),
       S(r'\bstr\.cend\(\)', '(self->str.p + self->str.n)', min=0, name='R12:str.cend()')]
for pfx, scope in (('string_buffer', SB), ('string_view_buffer', SVB)):
    F(pfx + '__begin', r'auto begin\(\)', 'const char* %s__begin(const struct %s* self)' % (pfx, pfx), STR, scope)
    F(pfx + '__end', r'auto end\(\)', 'const char* %s__end(const struct %s* self)' % (pfx, pfx), [S(r'\bstr\.cend\(\)', '(self->str.p + self->str.n)', name='R12:str.cend()')], scope)
    F(pfx + '__get_view', r'std::string_view get_view\(iterator start, iterator end\)',
      'struct vx_sv %s__get_view(const struct %s* self, const char* start, const char* end)' % (pfx, pfx), STR + [MKSV], scope)   # the vocabulary of std::string_view members a get_view may be written in

PRELUDE = r'''
int vx_thrown;
#define PH_N 64
size_t P_N;                                    /* ghost template parameter N of cstring_buffer<N> (R9) */
struct vx_sv { const char* p; size_t n; };     /* std::string_view / the characters of a std::string (R12) */
static inline struct vx_sv vx_mk_sv(const char* p, size_t n) { struct vx_sv r = { p, n }; return r; }
/* std::basic_string_view::substr(pos, n): throws if pos > size(), else the view [pos, pos + min(n, size() - pos)) */
static inline struct vx_sv vx_sv_substr(struct vx_sv sv, size_t pos, size_t n) { __CPROVER_assert(pos <= sv.n, "VX_SV substr position inside the view (else std::out_of_range)");
  struct vx_sv r = { sv.p + pos, n < sv.n - pos ? n : sv.n - pos }; return r; }
struct cstring_it { const char* ptr; };
struct cstring_buffer { char data[PH_N]; };
struct string_buffer { struct vx_sv str; };
struct string_view_buffer { struct vx_sv str; };
#define VX_OFF(p) ((size_t)__CPROVER_POINTER_OFFSET(p))
/* an iterator pair of a buffer: both inside the same character array, start not after end */
#define VX_IN(q, base, n) (__CPROVER_same_object(q, base) && VX_OFF(q) >= VX_OFF(base) && VX_OFF(q) <= VX_OFF(base) + (n))
/* ghost description of the character array the harness built: g_n readable bytes from g_b */
const char* g_b; size_t g_n;
#define VX_MAXB 4096
#define VX_MKBUF size_t vx_m, o1, o2; __CPROVER_assume(vx_m >= 1 && vx_m <= VX_MAXB); char* vx_a = malloc(vx_m); __CPROVER_assume(vx_a); \
   g_b = vx_a; g_n = vx_m - 1; __CPROVER_assume(o1 <= g_n && o2 <= g_n)
/* a string / string_view member: its n characters lie inside the array */
#define VX_STR_OK(s) (VX_IN((s).p, g_b, g_n) && (s).n <= g_n && VX_OFF((s).p) + (s).n <= g_n)
'''
UNIT = Unit('buffers', PRELUDE, fns)
UNIT.facts = [r'struct iterator\s*\{\s*const char\* ptr;', r'private:\s*char data\[N\] = \{ 0 \};', r'private:\s*std::string str;', r'private:\s*std::string_view str;',
              r'using iterator = std::string::const_iterator;', r'using iterator = std::string_view::const_iterator;']
apply_spec(UNIT.fns, os.path.join(HERE, '..', 'contracts', 'buffers.spec'))


# ---- native replay twins: counterexample offsets -> the real get_view -> the same postcondition
from vx import native as _N


def _twin_view(kind):
    def tw(o):
        v = _N.trace_vals(o, 'h_%s__get_view' % kind)
        m = max(1, min(4096, _N.to_int(v.get('vx_m'), 8)))
        o1, o2, o3, o4 = (_N.to_int(v.get(k), 0) for k in ('o1', 'o2', 'o3', 'o4'))
        ctor = 'std::string(all.substr(O1, O2))' if kind == 'string_buffer' else 'std::string_view(all.data() + O1, O2)'
        return _N.TWIN_HEAD + ("""#include <string>
int main() {
    const size_t O1 = %d, O2 = %d, O3 = %d, O4 = %d;       // member string at [O1, O1+O2) of an array; iterators at offsets O3 <= O4 of it
    std::string all(%d, 'x'); for (size_t i = 0; i < all.size(); ++i) all[i] = char('a' + i %% 26);
    if (!(O1 + O2 <= all.size() && O3 >= O1 && O4 <= O1 + O2 && O3 <= O4)) { std::puts("precondition not met"); return 0; }
    buffers::%s b(%s);
    auto s = b.begin() + (O3 - O1), e = b.begin() + (O4 - O1);
    std::string_view r = b.get_view(s, e);
    bool ok = r.data() == &*b.begin() + (O3 - O1) && r.size() == O4 - O3;
    std::printf("get_view([%%zu,%%zu)) has size %%zu, wanted %%zu; starts at the right byte: %%d\\n", O3 - O1, O4 - O1, r.size(), O4 - O3, int(r.data() == &*b.begin() + (O3 - O1)));
    return ok ? 0 : 1;
}""" % (o1, o2, o3, o4, m, kind, ctor))
    return tw


UNIT.fn('string_buffer__get_view').twin = _twin_view('string_buffer')
UNIT.fn('string_view_buffer__get_view').twin = _twin_view('string_view_buffer')
