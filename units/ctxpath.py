"""unit ctxpath (C13): every place the driver hands the caller's context on -- the full context_parse -> reduce / rr_conflict,
rr_conflict -> reduce, reduce -> reductors.invoke -- as a fragment: every occurrence of the parameter `ctx` in the function body,
in textual order, lowered by R20 (std::forward<Context>(ctx) keeps the caller's value category, std::move(ctx) makes an rvalue,
the bare name is an lvalue).  The rest of these functions is under contract in unit driver (values as ghost ids, R13)."""
import os, sys, re
sys.path.insert(0, os.path.dirname(os.path.abspath(__file__)))
from vx.core import Fn, Unit, apply_spec
import pcommon as PC

HERE = os.path.dirname(os.path.abspath(__file__))
fns = []
OCC = re.compile(r'std::forward<Context>\(ctx\)|std::move\(ctx\)|(?<![\w.>:])ctx\b')


def ctx_uses(body):
    out = []
    for m in OCC.finditer(body):
        t = m.group(0)
        out.append('vx_pass(%s);' % ('ctx' if t.startswith('std::forward') else 'vx_rvalue(ctx)' if t.startswith('std::move') else 'vx_lvalue(ctx)'))
    return '{ ' + ' '.join(out) + ' }'


def TPL(name):
    return r'constexpr\s+[\w:<>]+\s+%s\(' % name


def F(name, header, n):
    f = Fn(name=name, header=header, csig='void %s(struct vx_ref ctx)' % name, scope=PC.PARSER, fragment=ctx_uses, between_ok=r'\s*')
    f.expected = n
    fns.append(f)


F('vx_ctx_in_context_parse', r'constexpr std::optional<root_value_type> context_parse\(Context&& ctx, parse_options options, const Buffer& buffer, ErrorStream& error_stream\) const', 2)
F('vx_ctx_in_reduce', TPL('reduce') + r'Context&& ctx,\s*ParseState& ps,\s*size16_t rule_info_idx\)\s*const', 1)
F('vx_ctx_in_rr_conflict', TPL('rr_conflict') + r'Context&& ctx,\s*ParseState& ps,\s*size16_t rule_idx\)\s*const', 1)

PRELUDE = r'''
int vx_thrown;
typedef const void* vx_val;
enum { VX_LVALUE = 1, VX_RVALUE = 2 };
struct vx_ref { vx_val v; int cat; };
static inline struct vx_ref vx_lvalue(struct vx_ref r) { struct vx_ref x = { r.v, VX_LVALUE }; return x; }
static inline struct vx_ref vx_rvalue(struct vx_ref r) { struct vx_ref x = { r.v, VX_RVALUE }; return x; }
/* ghost: how often the context was handed on, and whether every time it was the caller's object with the caller's category */
unsigned g_pass_n; bool g_pass_bad; struct vx_ref g_ctx0;
static inline void vx_pass(struct vx_ref r) { if (g_pass_n < 1000) g_pass_n++; if (r.v != g_ctx0.v || r.cat != g_ctx0.cat) g_pass_bad = 1; }
'''
UNIT = Unit('ctxpath', PRELUDE, fns)
apply_spec(UNIT.fns, os.path.join(HERE, '..', 'contracts', 'ctxpath.spec'))

from vx import native as _N


def _twin_ctx(o):
    return _N.TWIN_HEAD + r"""#include <sstream>
using namespace ctpg::buffers;
struct cx { int n = 0; const void* seen = nullptr; int seen_other = 0; };
constexpr nterm<int> root("root"); constexpr nterm<int> item("item");
constexpr parser p(root, terms('+', 'x', 'y'), nterms(root, item), rules(
    root(item) >= [](int v) { return v; },                                                            // no context
    root(root, '+', item) >>= [](cx& c, int a, skip, int b) { ++c.n; if (c.seen && c.seen != &c) ++c.seen_other; c.seen = &c; return a + b; },
    item('x') >>= [](cx& c, skip) { ++c.n; if (c.seen && c.seen != &c) ++c.seen_other; c.seen = &c; return 1; },
    item('y') >= [](skip) { return 1; }));
constexpr parser q(root, terms('+', 'x', 'y'), nterms(root, item), rules(
    root(item) >= [](int v) { return v; }, root(root, '+', item) >= [](int a, skip, int b) { return a + b; }, item('x') >= [](skip) { return 1; }, item('y') >= [](skip) { return 1; }));
int main() {
    int bad = 0;
    for (const char* in : { "x", "x+y+x", "y+y", "x+x+x+x+y" }) {
        string_buffer buf(in); std::stringstream e1, e2, e3;
        int xs = 0, plus = 0; for (const char* s = in; *s; ++s) { xs += *s == 'x'; plus += *s == '+'; }
        cx c;
        auto r = p.context_parse(c, buf, e1);                      // non-const lvalue context: mutations must be visible here
        bool ok = r && c.n == xs + plus && c.seen == &c && c.seen_other == 0;
        auto r2 = q.parse(buf, e2); struct none {}; auto r3 = q.context_parse(none{}, buf, e3);   // a grammar that ignores the context
        ok = ok && r2 && r3 && *r2 == *r3 && *r2 == *r;
        if (!ok) { ++bad; std::printf("input \"%s\": context functors ran %d times on the caller's object (wanted %d), object seen %s; parse %d / context_parse %d\n",
                                      in, c.n, xs + plus, c.seen == &c ? "is the caller's" : "is NOT the caller's", r2 ? *r2 : -1, r3 ? *r3 : -1); }
    }
    return bad ? 1 : 0;
}"""


for _f in fns:
    _f.twin = _twin_ctx
