"""unit entry: the five forwarding overloads of parser::parse / parser::context_parse (C16: the outcome does not depend on which
overload -- with a stream or none, with options or none -- the user called: each hands exactly its arguments, the default options,
a no_stream or the no_type context to the one full context_parse).
R13: buffer, stream and context are opaque values; a context additionally carries its value category: std::forward<Context>(ctx)
keeps the caller's category, the bare name `ctx` is an lvalue (the language rule for an id-expression)."""
import os, sys, re
sys.path.insert(0, os.path.dirname(os.path.abspath(__file__)))
from vx.core import Fn, Unit, apply_spec
from vx.lower import S, Call, ExtractionBreak
import pcommon as PC

HERE = os.path.dirname(os.path.abspath(__file__))
fns = []
OPT = r'std::optional<root_value_type>'


def _dispatch(m, parts):
    name, n = m.group(1), len(parts)
    target = {('parse', 2): 'parser__parse_bs', ('parse', 3): 'parser__parse_obs', ('context_parse', 3): 'parser__context_parse_cbs',
              ('context_parse', 4): 'vx_context_parse_full'}.get((name, n))
    if target is None:
        raise ExtractionBreak('call of %s with %d arguments: no such overload' % (name, n))
    return 'return %s(self, %s)' % (target, ', '.join(parts))


RULES = [S(r'std::forward<Context>\(ctx\)', 'VX_FWD_CTX', min=0, name='R20:std::forward<Context>(ctx) keeps the value category'),
         S(r'(?<![\w.>])ctx\b', 'vx_lvalue(ctx)', min=0, name='R20:a bare parameter name is an lvalue'),
         S(r'VX_FWD_CTX', 'ctx', min=0, name='R20:forwarded'),
         S(r'utils::no_stream error_stream;', 'vx_val error_stream = VX_NO_STREAM;', min=0, name='R13:local no_stream'),
         S(r'parse_options\{\}', 'vx_default_options()', min=0, name='R13:parse_options{}'),
         S(r'no_type\{\}', 'vx_no_ctx()', min=0, name='R13:no_type{}'),
         Call(r'return (parse|context_parse)', _dispatch, name='R2:overload by arity')]


def F(name, header, csig):
    fns.append(Fn(name=name, header=header, csig=csig, scope=PC.PARSER, rules=RULES))


F('parser__parse_b', r'constexpr %s parse\(const Buffer& buffer\)' % OPT, 'vx_val parser__parse_b(const struct parser* self, vx_val buffer)')
F('parser__context_parse_cb', r'constexpr %s context_parse\(Context&& ctx, const Buffer& buffer\)' % OPT, 'vx_val parser__context_parse_cb(const struct parser* self, struct vx_ref ctx, vx_val buffer)')
F('parser__parse_bs', r'constexpr %s parse\(const Buffer& buffer, ErrorStream& error_stream\)' % OPT, 'vx_val parser__parse_bs(const struct parser* self, vx_val buffer, vx_val error_stream)')
F('parser__context_parse_cbs', r'constexpr %s context_parse\(Context&& ctx, const Buffer& buffer, ErrorStream& error_stream\)' % OPT,
  'vx_val parser__context_parse_cbs(const struct parser* self, struct vx_ref ctx, vx_val buffer, vx_val error_stream)')
F('parser__parse_obs', r'constexpr %s parse\(parse_options options, const Buffer& buffer, ErrorStream& error_stream\)' % OPT,
  'vx_val parser__parse_obs(const struct parser* self, struct parse_options options, vx_val buffer, vx_val error_stream)')

PRELUDE = r'''
int vx_thrown;
typedef const void* vx_val;
struct parser { int dummy; };
struct parse_options { bool verbose; bool skip_whitespace; bool skip_newline; };
enum { VX_LVALUE = 1, VX_RVALUE = 2 };
struct vx_ref { vx_val v; int cat; };        /* a forwarding-reference argument: the object and how the caller passed it */
static inline struct vx_ref vx_lvalue(struct vx_ref r) { struct vx_ref x = { r.v, VX_LVALUE }; return x; }
char vx_no_stream_obj, vx_no_type_obj;
#define VX_NO_STREAM ((vx_val)&vx_no_stream_obj)
static inline struct vx_ref vx_no_ctx(void) { struct vx_ref x = { &vx_no_type_obj, VX_RVALUE }; return x; }
/* parse_options{}: the default member initializers of the real struct (pinned as a fact) */
static inline struct parse_options vx_default_options(void) { struct parse_options o = { VX_DEF_VERBOSE, VX_DEF_SKIP_WS, VX_DEF_SKIP_NL }; return o; }
/* ghost record of the call of the full context_parse(ctx, options, buffer, error_stream) */
int g_calls; struct vx_ref g_ctx; struct parse_options g_opt; vx_val g_buf, g_stream, g_res; const struct parser* g_self;
vx_val vx_context_parse_full(const struct parser* self, struct vx_ref ctx, struct parse_options options, vx_val buffer, vx_val error_stream)
{ g_calls++; g_self = self; g_ctx = ctx; g_opt = options; g_buf = buffer; g_stream = error_stream; return g_res; }
#define VX_CALLED(c, o, b, s) (g_calls == 1 && g_self == self && g_ctx.v == (c).v && g_ctx.cat == (c).cat && g_opt.verbose == (o).verbose \
   && g_opt.skip_whitespace == (o).skip_whitespace && g_opt.skip_newline == (o).skip_newline && g_buf == (b) && g_stream == (s) && __CPROVER_return_value == g_res)
#define VX_DEFAULTS(o) ((o).verbose == VX_DEF_VERBOSE && (o).skip_whitespace == VX_DEF_SKIP_WS && (o).skip_newline == VX_DEF_SKIP_NL)
'''
UNIT = Unit('entry', PRELUDE, fns, consts=[('VX_DEF_VERBOSE', r'bool verbose = (false|true);\s*bool skip_whitespace', None),
                                             ('VX_DEF_SKIP_WS', r'bool skip_whitespace = (false|true);', None), ('VX_DEF_SKIP_NL', r'bool skip_newline = (false|true);', None)])
UNIT.facts = [PC.FACTS[8], r'constexpr %s context_parse\(Context&& ctx, parse_options options, const Buffer& buffer, ErrorStream& error_stream\) const' % OPT]
apply_spec(UNIT.fns, os.path.join(HERE, '..', 'contracts', 'entry.spec'))

# ---- native replay twin: every overload against the full one, for an rvalue and an lvalue context and for a failing input
from vx import native as _N


def _twin_entry(o):
    return _N.TWIN_HEAD + r"""#include <sstream>
using namespace ctpg::buffers;
struct cx { int base; constexpr int take() && { return base + 1000; } constexpr int take() const & { return base; } };
constexpr nterm<int> root("root"); constexpr nterm<int> item("item");
constexpr parser p(root, terms('+', 'x'), nterms(root, item), rules(
    root(item) >= [](int v) { return v; },
    root(root, '+', item) >= [](int a, skip, int b) { return a + b; },
    item('x') >>= [](auto&& c, skip) { return std::forward<decltype(c)>(c).take(); }));
constexpr parser q(root, terms('+', 'x'), nterms(root, item), rules(
    root(item) >= [](int v) { return v; }, root(root, '+', item) >= [](int a, skip, int b) { return a + b; }, item('x') >= [](skip) { return 1; }));
static int show(const std::optional<int>& r) { return r ? *r : -1; }
int main() {
    int bad = 0;
    for (const char* in : { "x", "x + x", "x\n+\nx+x", "x x", "x + ", "?" }) {
        string_buffer buf(in);
        std::stringstream s1, s2, s3, s4, s5, s6;
        auto full_r = p.context_parse(cx{7}, parse_options{}, buf, s1);           // the full overload is the reference
        auto r1 = p.context_parse(cx{7}, buf), r2 = p.context_parse(cx{7}, buf, s2);
        cx named{7};
        auto full_l = p.context_parse(named, parse_options{}, buf, s3);
        auto l1 = p.context_parse(named, buf), l2 = p.context_parse(named, buf, s4);
        auto full_q = q.parse(parse_options{}, buf, s5);
        auto q1 = q.parse(buf), q2 = q.parse(buf, s6);
        bool ok = r1 == full_r && r2 == full_r && l1 == full_l && l2 == full_l && q1 == full_q && q2 == full_q && s2.str() == s1.str() && s4.str() == s3.str() && s6.str() == s5.str();
        if (!ok) { ++bad; std::printf("input \"%s\": rvalue ctx full %d, no-stream %d, stream %d; lvalue ctx full %d, no-stream %d, stream %d; parse full %d, no-stream %d, stream %d\n",
                                      in, show(full_r), show(r1), show(r2), show(full_l), show(l1), show(l2), show(full_q), show(q1), show(q2)); }
    }
    return bad ? 1 : 0;
}"""


for _f in fns:
    _f.twin = _twin_entry
