"""unit regex_decode: character / set decoding of regex primaries (C03): hex_digits_to_char, regex_char, char_subset::add_range,
string_view_to_subset.  R12: std::string_view -> struct vx_sv {p, n}, sv[i] asserts i < n."""
import os, sys, re
sys.path.insert(0, os.path.dirname(os.path.abspath(__file__)))
from vx.core import Fn, Unit, apply_spec
from vx.lower import S, Call
import pcommon as PC
import stdex as SX

HERE = os.path.dirname(os.path.abspath(__file__))
fns = []


def F(name, header, csig, rules=(), scope=None, **kw):
    f = Fn(name=name, header=header, csig=csig, scope=scope, rules=list(rules), between_ok=r'\s*', **kw)
    fns.append(f)


LAMBDA = r'auto dd = \[\]\(char d\) -> char\s*(\{.*?\n\s*\});'


def dd_fragment(body):
    m = re.search(LAMBDA, body, re.S)
    if not m:
        raise Exception('hex_digits_to_char: lambda dd not found')
    return m.group(1)


SV = [Call(r'\bsv\.substr', 'vx_sv_substr(sv, {0})', min=0, name='R12:substr'), S(r'\bsv\.size\(\)', 'sv.n', min=0, name='R12:size'),
      S(r'\bsv\[([^\]]+)\]', r'VX_SV_AT(sv, \1)', min=0, name='R12:operator[]')]
for nm, hdr, sig in (('utils__char_to_idx', r'constexpr\s+size_t\s+char_to_idx\s*\(\s*char c\s*\)', 'size_t utils__char_to_idx(char c)'),
                     ('utils__is_hex_digit', r'constexpr\s+bool\s+is_hex_digit\s*\(\s*char c\s*\)', 'bool utils__is_hex_digit(char c)')):
    F(nm, hdr, sig)
F('hex__dd', r'constexpr\s+char\s+hex_digits_to_char\(char d1,\s*char d2\)', 'char hex__dd(char d)', fragment=dd_fragment)
F('regex__hex_digits_to_char', r'constexpr\s+char\s+hex_digits_to_char\(char d1,\s*char d2\)', 'char regex__hex_digits_to_char(char d1, char d2)',
  rules=[S(LAMBDA, '', flags=re.S, name='R14:lambda-dd'), S(r'\bdd\(', 'hex__dd(', min=2, name='R14:dd-call')])
F('regex__regex_char', r'constexpr\s+char\s+regex_char\(std::string_view sv,\s*size_t& len\)', 'char regex__regex_char(struct vx_sv sv, size_t* len)',
  rules=SV + [S(r'(?<![\w.>])len\b', '(*len)', name='R5:len'), S(r'\bhex_digits_to_char\(', 'regex__hex_digits_to_char(', min=2)])
CS = [r'class\s+char_subset\b']
F('char_subset__add_range', r'constexpr\s+char_subset&\s+add_range\(char_range r\)', 'struct char_subset* char_subset__add_range(struct char_subset* self, struct regex__char_range r)', scope=CS,
  rules=[S(r'\bdata\.set\(', 'cbitset_set(&self->data, ', name='R4:data.set'), S(r'return \*this;', 'return self;', name='R4:this')])

# string_view_to_subset: the decoder of a primary lexeme ('.', a set, a single element).  char_subset's one-line members flip() / set(idx) forward
# to the bitset (pinned as facts); `char_subset cs;` is the defaulted constructor (member initialiser `data = {}`, pinned).
F('regex__string_view_to_subset', r'constexpr\s+char_subset\s+string_view_to_subset\(std::string_view sv\)', 'struct char_subset regex__string_view_to_subset(struct vx_sv sv)',
  rules=SV + [S(r'\bchar_subset cs;', 'struct char_subset cs; VX_CS_INIT(cs);', name='R19:char_subset()'),
              S(r'\bregex_char\((.*?), len\)', r'regex__regex_char(\1, &len)', min=3, name='R5:len (local, passed by reference)'),
              S(r'\bcs\.flip\(\)', 'cbitset_flip_all(&cs.data)', min=1, name='R4:char_subset::flip'),
              S(r'\bcs\.add_range\(char_range\{([^{}]*)\}\)', r'char_subset__add_range(&cs, (struct regex__char_range){\1})', min=1, name='R4:add_range'),
              S(r'\bcs\.set\(utils::char_to_idx\(', 'cbitset_set(&cs.data, utils__char_to_idx(', min=1, name='R4:char_subset::set(idx)')])

# R14: the functors of the regex grammar that compute (the others forward to the builder): digit value, decimal accumulation, digit as a literal
F('vx_regex_digit_value', r'constexpr custom_term regex_digit_09\("regex_digit_09", \[\]\(auto sv\)', 'size32_t vx_regex_digit_value(struct vx_sv sv)', rules=SV)
F('vx_regex_number_step', r'number\(number, regex_digit_09\) >= \[\]\(size32_t n, size32_t x\)', 'size32_t vx_regex_number_step(size32_t n, size32_t x)')
F('vx_regex_digit_primary', r'primary\(regex_digit_09\) >>= \[\]\(auto& ctx, size32_t number\)', 'int vx_regex_digit_primary(size32_t number)',
  rules=[S(r'\bctx\.primary_char\(', 'vx_ctx_primary_char(', name='R13:builder call (abstract)')])

PRELUDE = r'''
int vx_thrown;
struct vx_sv { const char* p; size_t n; };
static inline char VX_SV_AT(struct vx_sv sv, size_t i) { __CPROVER_assert(i < sv.n, "VX_SV string_view subscript inside the view (the standard's precondition)"); return sv.p[i]; }
static inline struct vx_sv vx_sv_substr(struct vx_sv sv, size_t i) { __CPROVER_assert(i <= sv.n, "VX_SV substr position inside the view"); struct vx_sv r = { sv.p + i, sv.n - i }; return r; }
struct regex__char_range { char start; char end; };
''' + SX.cbitset_struct(words=4) + r'''
struct char_subset { struct cbitset data; };
size_t g_k;
int g_pc_calls; char g_pc_arg;
static inline int vx_ctx_primary_char(char c) { g_pc_calls++; g_pc_arg = c; return 0; }
#define VX_HEX(c) (((c) >= 48 && (c) <= 57) || ((c) >= 97 && (c) <= 102) || ((c) >= 65 && (c) <= 70))
#define VX_HEXVAL(c) ((c) <= 57 ? (c) - 48 : ((c) <= 70 ? (c) - 65 + 10 : (c) - 97 + 10))
#define VX_BIT(b, i) (((b).data[(i) / 64] >> ((i) % 64)) & 1)
#define VX_CS_INIT(cs) ((cs) = (struct char_subset){ .data = { .N = 256, .data = { 0 } } })
''' + open(os.path.join(HERE, '..', 'contracts', 'set_item.h')).read() + r'''
#define VX_SETMAX 20
size_t g_w; int vx_acc, vx_w_in, vx_lexeme_ok; unsigned char vx_bd[VX_SETMAX + 16], vx_il[VX_SETMAX + 16]; size_t vx_prev[VX_SETMAX + 16];
'''
CB = SX.make_cbitset(extra=True)
for f in CB:
    f.harness, f.props = None, []
UNIT = Unit('regex_decode', PRELUDE, CB + fns, consts=PC.UNINIT)
UNIT.facts = SX.CB_FACTS + [r'stdex::cbitset<meta::distinct_values_count<char>> data = \{\};', r'char start;\s*char end;\s*\};',
                           r'constexpr char_subset\(\) = default;', r'constexpr char_subset& flip\(\) \{ data\.flip\(\); return \*this; \}',
                           r'constexpr char_subset& set\(size_t idx\) \{ data\.set\(idx\); return \*this; \}']
apply_spec(UNIT.fns, os.path.join(HERE, '..', 'contracts', 'regex_decode.spec'))


# ---- native replay twins (public API): counterexample inputs -> the real C++ function -> same postcondition
from vx import native as _N


def _twin_hex(o):
    v = _N.trace_vals(o, 'h_regex__hex_digits_to_char') or _N.trace_vals(o, 'h_hex__dd')
    a = _N.to_int(v.get('a', v.get('d')), 70); b = _N.to_int(v.get('b', v.get('d')), 70)
    return _N.TWIN_HEAD + """
static int hv(int c) { return c <= 57 ? c - 48 : (c <= 70 ? c - 65 + 10 : c - 97 + 10); }
int main() {
    char d1 = (char)%d, d2 = (char)%d;
    unsigned char r = (unsigned char)regex::hex_digits_to_char(d1, d2);
    int want = hv(d1) * 16 + hv(d2);
    std::printf("hex_digits_to_char('%%c','%%c') = %%u, documented meaning %%d\\n", d1, d2, (unsigned)r, want);
    return r == (unsigned char)want ? 0 : 1;
}""" % (a, b)


for _f in UNIT.fns:
    if _f.name in ('regex__hex_digits_to_char', 'hex__dd'):
        _f.twin = _twin_hex


def _twin_number(o):
    v = _N.trace_vals(o, 'h_vx_regex_number_step')
    n = _N.to_int(v.get('n'), 1) % 10 or 1
    x = _N.to_int(v.get('x'), 2) % 10
    if n == x:
        x = (x + 1) % 10
    return _N.TWIN_HEAD + """#include <string>
static constexpr char pat[] = "a{%d%d}";
constexpr regex::expr<pat> r;
int main() {
    int bad = 0;
    for (int k = 0; k <= 99; ++k) {
        bool got = r.match(buffers::string_buffer(std::string(k, 'a'))), want = (k == %d);
        if (got != want) { ++bad; std::printf("a{%d%d} %%s a string of %%d a's\\n", got ? "accepts" : "rejects", k); }
    }
    return bad ? 1 : 0;
}""" % (n, x, n * 10 + x, n, x)


UNIT.fn('vx_regex_number_step').twin = _twin_number
