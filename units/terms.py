"""unit terms: the term classes of the DSL (term, char_term, string_term, typed_term, custom_term, regex_term): constructors
(mem-initializer lists lowered by R19) and the one-line accessors the parser reads names, ids, precedences and associativities
through.  R9: DataSize / pattern_size / Pattern become ghost parameters; R18: utils::copy_array(dst, src, index_sequence<K>) is
the abstract vx_copy_array(dst, src, K) (its pack-expansion body is pinned as a pattern fact)."""
import os, sys, re
sys.path.insert(0, os.path.dirname(os.path.abspath(__file__)))
from vx.core import Fn, Unit, apply_spec
from vx.lower import S, Call, Bound
import pcommon as PC

HERE = os.path.dirname(os.path.abspath(__file__))
fns = []


def F(name, header, csig, rules=(), scope=None, **kw):
    f = Fn(name=name, header=header, csig=csig, scope=scope, rules=list(rules), **kw)
    fns.append(f)


ASSOC = r'associativity a = associativity::no_assoc'
def _padded(target, first, defaults):
    """constructor call with fewer arguments than parameters: the missing ones are the default arguments of the real declaration
    (grabbed from the header text as macros)"""
    def repl(m, parts):
        n = len(defaults)             # defaults[k] is the default of parameter k (None: no default)
        if len(parts) > n or any(defaults[k] is None for k in range(len(parts), n)):
            raise Exception('constructor call %r does not fit the declaration' % m.group(0))
        return '%s(%s)' % (target, ', '.join([first] + parts + [defaults[k] for k in range(len(parts), n)]))
    return repl


BASE = Call(r'VX_INIT__term', _padded('term__ctor', '&self->base', ['VX_TERM_DEF_PREC', 'VX_TERM_DEF_ASSOC']), name='R19:base-class initializer term(..) (default arguments from the declaration)')
MEMB = Call(r'VX_INIT__(\w+)', 'self->{m1} = ({args})', min=0, name='R19:member initializer m(e)')
SEQ = S(r'std::make_index_sequence<([^>]+)>\{\}', r'(\1)', name='R18:index_sequence<K> -> K')
COPY = Call(r'utils::copy_array', 'vx_copy_array({args})', name='R18:copy_array')


def member(n, min=1):
    return S(r'(?<![\w.>])%s\b' % n, 'self->' + n, min=min, name='R4:member ' + n)


T, CT, ST, TT, CU, RT = ([r'class\s+%s\b(?!;)' % c] for c in ('term', 'char_term', 'string_term', 'typed_term', 'custom_term', 'regex_term'))
T = [r'class\s+term\s*(?=\{)']
# ---- class term
F('term__ctor', r'constexpr term\(int precedence = 0, ' + ASSOC + r'\)', 'void term__ctor(struct term* self, int precedence, int a)', [MEMB], T, ctor=True)
F('term__get_associativity', r'constexpr associativity get_associativity\(\)', 'int term__get_associativity(const struct term* self)', [member('ass')], T)
F('term__get_precedence', r'constexpr int get_precedence\(\)', 'int term__get_precedence(const struct term* self)', [member('precedence')], T)
# ---- char_term
F('utils__char_to_idx', r'constexpr\s+size_t\s+char_to_idx\s*\(\s*char c\s*\)', 'size_t utils__char_to_idx(char c)')
F('utils__char_names__name', r'constexpr\s+const char\*\s+name\(char c\)\s*const', 'const char* utils__char_names__name(const struct utils__char_names* self, char c)',
  [S(r'(?<![\w.>])arr\b', 'self->arr', name='R4:members'), Bound(r'self->arr', ['256']), S(r'\bchar_to_idx\(', 'utils__char_to_idx(', min=0, name='R2:same-namespace call')],
  [r'class\s+char_names\b'], between_ok=r'\s*')
F('char_term__ctor', r'constexpr char_term\(char c, int precedence = 0, ' + ASSOC + r'\)', 'void char_term__ctor(struct char_term* self, char c, int precedence, int a)',
  [BASE, MEMB, S(r'utils::char_names::name_size', 'VX_NAME_SIZE', name='R9:name_size'), SEQ, S(r'utils::c_names\.name\(', 'utils__char_names__name(&utils__c_names, ', name='R2:c_names.name'),
   COPY, S(r'vx_copy_array\(id,', 'vx_copy_array(self->id,', name='R4:member id')], CT, ctor=True)
F('char_term__get_id', r'constexpr const char\* get_id\(\)', 'const char* char_term__get_id(const struct char_term* self)', [member('id')], CT)
F('char_term__get_name', r'constexpr const char\* get_name\(\)', 'const char* char_term__get_name(const struct char_term* self)', [S(r'\bget_id\(\)', 'char_term__get_id(self)')], CT)
F('char_term__get_char', r'constexpr char get_char\(\)', 'char char_term__get_char(const struct char_term* self)', [member('c')], CT)
F('char_term__get_data', r'constexpr char get_data\(\)', 'char char_term__get_data(const struct char_term* self)', [member('c')], CT)
# ---- the term functors of the built-in terms (C02: a term's value is its functor applied to its lexeme)
F('utils__pass_sv', r'constexpr std::string_view pass_sv\(const std::string_view& sv\)', 'struct vx_sv utils__pass_sv(const struct vx_sv* sv)', [S(r'return sv;', 'return *sv;', name='R5:const& parameter')], between_ok=r'\s*')
F('utils__first_sv_char', r'constexpr char first_sv_char\(const std::string_view& sv\)', 'char utils__first_sv_char(const struct vx_sv* sv)', [S(r'\bsv\[0\]', 'VX_SV_AT(*sv, 0)', name='R12:operator[]')], between_ok=r'\s*')
GETF = S(r'return utils::(\w+);', r'return (vx_fn)utils__\1;', name='R5:reference to a function')
F('char_term__get_ftor', r'constexpr const auto& get_ftor\(\)', 'vx_fn char_term__get_ftor(const struct char_term* self)', [GETF], CT)
F('string_term__get_ftor', r'constexpr const auto& get_ftor\(\)', 'vx_fn string_term__get_ftor(const struct string_term* self)', [GETF], ST)
F('regex_term__get_ftor', r'constexpr const auto& get_ftor\(\)', 'vx_fn regex_term__get_ftor(const struct regex_term* self)', [GETF], [r'class\s+regex_term\b(?!;)'])
# ---- detail::make_term: a bare char / string literal in terms(...) or in a rule becomes a char_term / string_term with the default precedence and associativity
F('detail__make_term_char', r'constexpr auto make_term\(char c\)', 'struct char_term detail__make_term_char(char c)',
  [Call(r'return char_term', _padded('{ struct char_term vx_r; char_term__ctor', '&vx_r', [None, 'VX_CT_DEF_PREC', 'VX_CT_DEF_ASSOC']), name='R19:char_term(c) with the declaration\'s default arguments'),
   S(r'(char_term__ctor\([^;]*\));', r'\1; return vx_r; }', name='R16:temporary returned by value')], between_ok=r'\s*')
F('detail__make_term_string', r'constexpr auto make_term\(const char \(&str\)\[N\]\)', 'struct string_term detail__make_term_string(const char* str)',
  [Call(r'return string_term<N>', _padded('{ struct string_term vx_r; string_term__ctor', '&vx_r', [None, 'VX_ST_DEF_PREC', 'VX_ST_DEF_ASSOC']), name='R19:string_term<N>(str) with the declaration\'s default arguments'),
   S(r'(string_term__ctor\([^;]*\));', r'\1; return vx_r; }', name='R16:temporary returned by value')], between_ok=r'\s*')
# ---- string_term<DataSize>
F('string_term__ctor', r'constexpr string_term\(const char \(&str\)\[DataSize\], int precedence = 0, ' + ASSOC + r'\)',
  'void string_term__ctor(struct string_term* self, const char* str, int precedence, int a)',
  [BASE, SEQ, COPY, S(r'vx_copy_array\(data,', 'vx_copy_array(self->data,', name='R4:member data'), S(r'\bDataSize\b', 'P_DS', name='R9:DataSize')], ST, ctor=True)
F('string_term__get_id', r'constexpr const char\* get_id\(\)', 'const char* string_term__get_id(const struct string_term* self)', [member('data')], ST)
F('string_term__get_name', r'constexpr const char\* get_name\(\)', 'const char* string_term__get_name(const struct string_term* self)', [S(r'\bget_id\(\)', 'string_term__get_id(self)')], ST)
# ---- typed_term<Term, Ftor>: Term is abstract (struct vx_Term: what its accessors return)
FWD = S(r'\bterm\.(get_\w+)\(\)', r'vx_Term__\1(&self->term)', name='R4:term.get_x()')
F('typed_term__ctor', r'constexpr typed_term\(Term t, Ftor f\)', 'void typed_term__ctor(struct typed_term* self, struct vx_Term t, int f)', [MEMB], TT, ctor=True)
F('typed_term__get_id', r'constexpr const char\* get_id\(\)', 'const char* typed_term__get_id(const struct typed_term* self)', [FWD], TT)
F('typed_term__get_name', r'constexpr const char\* get_name\(\)', 'const char* typed_term__get_name(const struct typed_term* self)', [FWD], TT)
F('typed_term__get_associativity', r'constexpr associativity get_associativity\(\)', 'int typed_term__get_associativity(const struct typed_term* self)', [FWD], TT)
F('typed_term__get_precedence', r'constexpr int get_precedence\(\)', 'int typed_term__get_precedence(const struct typed_term* self)', [FWD], TT)
F('typed_term__get_ftor', r'constexpr const ftor_type& get_ftor\(\)', 'const int* typed_term__get_ftor(const struct typed_term* self)', [S(r'return ftor;', 'return &self->ftor;', name='R5:reference result')], TT)
# ---- custom_term<Ftor>
F('custom_term__ctor', r'constexpr custom_term\(const char\* custom_name, Ftor ftor, int precedence = 0, ' + ASSOC + r'\)',
  'void custom_term__ctor(struct custom_term* self, const char* custom_name, int ftor, int precedence, int a)', [BASE, MEMB], CU, ctor=True)
F('custom_term__get_name', r'constexpr const char\* get_name\(\)', 'const char* custom_term__get_name(const struct custom_term* self)', [member('custom_name')], CU)
F('custom_term__get_id', r'constexpr const char\* get_id\(\)', 'const char* custom_term__get_id(const struct custom_term* self)', [S(r'\bget_name\(\)', 'custom_term__get_name(self)')], CU)
F('custom_term__get_ftor', r'constexpr const ftor_type& get_ftor\(\)', 'const int* custom_term__get_ftor(const struct custom_term* self)', [S(r'return ftor;', 'return &self->ftor;', name='R5:reference result')], CU)
# ---- regex_term<Pattern>
DELEG = Call(r'VX_INIT__regex_term', _padded('regex_term__ctor', 'self', [None, 'VX_RT_DEF_PREC', 'VX_RT_DEF_ASSOC']), name='R19:delegating constructor (default arguments from the declaration)')
F('regex_term__ctor', r'constexpr regex_term\(const char \*custom_name, int precedence = 0, ' + ASSOC + r'\)',
  'void regex_term__ctor(struct regex_term* self, const char* custom_name, int precedence, int a)',
  [BASE, MEMB, SEQ, COPY, S(r'\bPattern\b', 'P_Pattern', name='R9:Pattern'), S(r'\bpattern_size\b', 'P_PS', name='R9:pattern_size'), member('id', min=3), Bound(r'self->id', ['P_PS + 2'])], RT, ctor=True)
F('regex_term__ctor_a', r'constexpr regex_term\(' + ASSOC + r'\)', 'void regex_term__ctor_a(struct regex_term* self, int a)', [DELEG], RT, ctor=True)
F('regex_term__ctor_pa', r'constexpr regex_term\(int precedence = 0, ' + ASSOC + r'\)', 'void regex_term__ctor_pa(struct regex_term* self, int precedence, int a)', [DELEG], RT, ctor=True)
F('regex_term__get_name', r'constexpr const char\* get_name\(\)', 'const char* regex_term__get_name(const struct regex_term* self)', [member('custom_name', min=2), member('id')], RT)
F('regex_term__get_id', r'constexpr const char\* get_id\(\)', 'const char* regex_term__get_id(const struct regex_term* self)', [member('id')], RT)

PRELUDE = r'''
int vx_thrown;
static inline size_t vx_idx(size_t i, size_t n) { __CPROVER_assert(i < n, "VX_BOUND subscript within the declared (logical) dimension"); return i; }
#define PH_DS 16
#define PH_PS 16
size_t P_DS, P_PS;                 /* ghost template parameters: string_term<DataSize>, regex_term<Pattern>::pattern_size = std::size(Pattern) (R9) */
const char* P_Pattern;             /* the pattern array regex_term is instantiated with */
size_t g_k;                        /* ghost-chosen index */
struct vx_sv { const char* p; size_t n; };
static inline char VX_SV_AT(struct vx_sv sv, size_t i) { __CPROVER_assert(i < sv.n, "VX_SV string_view subscript inside the view (the standard's precondition)"); return sv.p[i]; }
typedef void (*vx_fn)(void);
struct term { int precedence; int ass; };
struct utils__char_names { char arr[256][VX_NAME_SIZE]; };
struct utils__char_names utils__c_names;
struct char_term { struct term base; char c; char id[VX_NAME_SIZE]; };
struct string_term { struct term base; char data[PH_DS]; };
/* the Term a typed_term wraps, as far as typed_term can see it: what its four accessors return */
struct vx_Term { const char* id; const char* name; int precedence; int ass; };
static inline const char* vx_Term__get_id(const struct vx_Term* t) { return t->id; }
static inline const char* vx_Term__get_name(const struct vx_Term* t) { return t->name; }
static inline int vx_Term__get_precedence(const struct vx_Term* t) { return t->precedence; }
static inline int vx_Term__get_associativity(const struct vx_Term* t) { return t->ass; }
struct typed_term { struct vx_Term term; int ftor; };
struct custom_term { struct term base; const char* custom_name; int ftor; };
struct regex_term { struct term base; char id[PH_PS + 2]; const char* custom_name; };
#define VX_OFF(p) ((size_t)__CPROVER_POINTER_OFFSET(p))
/* R18: utils::copy_array(a1, a2, index_sequence<0..n-1>) is (a1[I] = a2[I]) for every I < n */
void vx_copy_array(char* a1, const char* a2, size_t n)
__CPROVER_requires(n <= 64 && __CPROVER_w_ok(a1, n) && __CPROVER_r_ok(a2, n) && !__CPROVER_same_object(a1, a2))
__CPROVER_assigns(__CPROVER_object_upto(a1, n))
__CPROVER_ensures(g_k < n ==> a1[g_k] == a2[g_k]);
'''
UNIT = Unit('terms', PRELUDE, fns, consts=[('VX_NAME_SIZE', r'const static size_t name_size = (\d+);', None),
    ('VX_TERM_DEF_PREC', r'constexpr term\(int precedence = ([^,]+), associativity a = [^)]+\)', None), ('VX_TERM_DEF_ASSOC', r'constexpr term\(int precedence = [^,]+, associativity a = ([^)]+)\)', None),
    ('VX_CT_DEF_PREC', r'constexpr char_term\(char c, int precedence = ([^,]+), associativity a = [^)]+\)', None), ('VX_CT_DEF_ASSOC', r'constexpr char_term\(char c, int precedence = [^,]+, associativity a = ([^)]+)\)', None),
    ('VX_ST_DEF_PREC', r'constexpr string_term\(const char \(&str\)\[DataSize\], int precedence = ([^,]+), associativity a = [^)]+\)', None), ('VX_ST_DEF_ASSOC', r'constexpr string_term\(const char \(&str\)\[DataSize\], int precedence = [^,]+, associativity a = ([^)]+)\)', None),
    ('VX_RT_DEF_PREC', r'constexpr regex_term\(const char \*custom_name, int precedence = ([^,]+), associativity a = [^)]+\)', None),
    ('VX_RT_DEF_ASSOC', r'constexpr regex_term\(const char \*custom_name, int precedence = [^,]+, associativity a = ([^)]+)\)', None)])
UNIT.enums = [PC.ENUMS[1]]
UNIT.facts = [r'constexpr void copy_array\(T \*a1, const T\* a2, std::index_sequence<I\.\.\.>\)\s*\{\s*\(void\(a1\[I\] = a2\[I\]\), \.\.\.\);\s*\}',
              r'protected:\s*int precedence;\s*associativity ass;\s*\};', r'private:\s*char c;\s*char id\[utils::char_names::name_size\] = \{\};',
              r'private:\s*char data\[DataSize\] = \{\};', r'private:\s*Term term;\s*ftor_type ftor;\s*\};', r'private:\s*const char\* custom_name;\s*Ftor ftor;\s*\};',
              r'private:\s*char id\[pattern_size \+ 2\] = \{\};\s*const char\* custom_name = nullptr;\s*\};', r'static const size_t pattern_size = std::size\(Pattern\);',
              r'char arr\[meta::distinct_chars_count\]\[name_size\] = \{\};', r'constexpr char_names c_names = \{\};']
apply_spec(UNIT.fns, os.path.join(HERE, '..', 'contracts', 'terms.spec'))


# ---- native replay twins: the same postconditions on the real classes
from vx import native as _N


def _pa(o, h):
    v = _N.trace_vals(o, h)
    return _N.to_int(v.get('p'), 0), _N.to_int(v.get('a'), 1) % 3


def _twin_custom(o):
    p, a = _pa(o, 'h_custom_term__ctor')
    return _N.TWIN_HEAD + """#include <cstring>
int main() {
    int p = %d; associativity a = associativity(%d); static const char nm[] = "n";
    auto f = [](std::string_view) { return 0; };
    custom_term t(nm, f, p, a);
    std::printf("custom_term(\\"n\\", f, %%d, %%d): precedence %%d associativity %%d\\n", p, int(a), t.get_precedence(), int(t.get_associativity()));
    return (t.get_precedence() == p && t.get_associativity() == a && t.get_name() == nm && t.get_id() == nm) ? 0 : 1;
}""" % (p, a)


def _twin_regex(hname, kind):
    def tw(o):
        p, a = _pa(o, hname)
        ctor = {'full': 'r("nm", p, a)', 'a': 'r(a)', 'pa': 'r(p, a)'}[kind]
        return _N.TWIN_HEAD + """#include <cstring>
static constexpr char pat[] = "ab+c";
int main() {
    int p = %d; associativity a = associativity(%d);
    regex_term<pat> %s;
    int wantp = %s;
    std::printf("id '%%s' (wanted 'r_ab+c'), name '%%s', precedence %%d, associativity %%d\\n", r.get_id(), r.get_name(), r.get_precedence(), int(r.get_associativity()));
    bool ok = std::strcmp(r.get_id(), "r_ab+c") == 0 && r.get_precedence() == wantp && r.get_associativity() == a && std::strcmp(r.get_name(), %s) == 0;
    return ok ? 0 : 1;
}""" % (p, a, ctor, '0' if kind == 'a' else 'p', '"nm"' if kind == 'full' else '"r_ab+c"')
    return tw


def _twin_typed(o):
    return _N.TWIN_HEAD + """#include <cstring>
static constexpr char pat[] = "[1-9][0-9]*";
int main() {
    regex_term<pat> r("number", 3, associativity::ltor);
    auto f = [](std::string_view) { return 1; };
    typed_term t(r, f);
    std::printf("typed_term: id '%s' name '%s' precedence %d associativity %d; wrapped: id '%s' name '%s'\\n", t.get_id(), t.get_name(), t.get_precedence(), int(t.get_associativity()), r.get_id(), r.get_name());
    bool ok = !std::strcmp(t.get_id(), r.get_id()) && !std::strcmp(t.get_name(), r.get_name()) && t.get_precedence() == 3 && t.get_associativity() == associativity::ltor;
    return ok ? 0 : 1;
}"""


UNIT.fn('custom_term__ctor').twin = _twin_custom
UNIT.fn('regex_term__ctor').twin = _twin_regex('h_regex_term__ctor', 'full')
UNIT.fn('regex_term__ctor_a').twin = _twin_regex('h_regex_term__ctor_a', 'a')
UNIT.fn('regex_term__ctor_pa').twin = _twin_regex('h_regex_term__ctor_pa', 'pa')
for _n in ('typed_term__get_id', 'typed_term__get_name', 'typed_term__get_associativity', 'typed_term__get_precedence', 'typed_term__ctor'):
    UNIT.fn(_n).twin = _twin_typed
