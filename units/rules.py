"""unit rules: detail::rule<RequiresContext, F, L, R...> -- the DSL object a grammar rule is: three constructors (R19) and the
operators that attach a precedence ([n]) or a functor (>=, >>=), plus the accessors the parser reads them back through.
R13: the functor, the left side and the right-side tuple are opaque values (ghost ids); RequiresContext is a ghost field."""
import os, sys, re
sys.path.insert(0, os.path.dirname(os.path.abspath(__file__)))
from vx.core import Fn, Unit, apply_spec
from vx.lower import S, Call, ExtractionBreak

HERE = os.path.dirname(os.path.abspath(__file__))
fns = []
RULE = [r'class\s+rule\s*(?=\{)']


def F(name, header, csig, rules=(), **kw):
    fns.append(Fn(name=name, header=header, csig=csig, scope=RULE, rules=list(rules), **kw))


MEMB = Call(r'VX_INIT__(\w+)', 'self->{m1} = ({args})', name='R19:member initializer m(e)')


def member(n, min=1):
    return S(r'(?<![\w.>])%s\b' % n, 'self->' + n, min=min, name='R4:member ' + n)


def _mk(m, parts):
    ctx = {'true': '1', 'false': '0', 'RequiresContext': 'self->requires_context'}.get(m.group(1))
    if ctx is None or len(parts) not in (2, 3, 4):
        raise ExtractionBreak('rule construction of an unexpected shape: %r' % m.group(0))
    return '{ struct rule vx_r; rule__ctor%d(&vx_r, %s); vx_r.requires_context = %s; return vx_r; }' % (len(parts), ', '.join(parts), ctx)


MK = Call(r'return rule<(\w+), [^;(]*>', _mk, name='R19:return rule<Ctx, ...>(args) -> constructor by arity')
SIG = 'struct rule* self'
F('rule__ctor2', r'constexpr rule\(L l, std::tuple<R\.\.\.> r\)', 'void rule__ctor2(struct rule* self, vx_val l, vx_val r)', [MEMB], ctor=True)
F('rule__ctor3', r'constexpr rule\(F1&& f, L l, std::tuple<R\.\.\.> r\)', 'void rule__ctor3(struct rule* self, vx_val f, vx_val l, vx_val r)', [MEMB], ctor=True)
F('rule__ctor4', r'constexpr rule\(F1&& f, L l, std::tuple<R\.\.\.> r, int precedence\)', 'void rule__ctor4(struct rule* self, vx_val f, vx_val l, vx_val r, int precedence)', [MEMB], ctor=True)
F('rule__with_precedence', r'constexpr auto operator\[\]\(int prec\)', 'struct rule rule__with_precedence(struct rule* self, int prec)', [MK, member('f'), member('l'), member('r')])
F('rule__with_ftor', r'constexpr auto operator >= \(F1&& f\)', 'struct rule rule__with_ftor(struct rule* self, vx_val f)', [MK, member('l'), member('r'), member('precedence', min=0)])
F('rule__with_ctx_ftor', r'constexpr auto operator >>= \(F1&& f\)', 'struct rule rule__with_ctx_ftor(struct rule* self, vx_val f)', [MK, member('l'), member('r'), member('precedence', min=0)])
F('rule__get_f', r'constexpr const F& get_f\(\)', 'const vx_val* rule__get_f(const struct rule* self)', [S(r'return f;', 'return &self->f;', name='R5:reference result')])
F('rule__get_l', r'constexpr const L& get_l\(\)', 'const vx_val* rule__get_l(const struct rule* self)', [S(r'return l;', 'return &self->l;', name='R5:reference result')])
F('rule__get_r', r'constexpr const auto& get_r\(\)', 'const vx_val* rule__get_r(const struct rule* self)', [S(r'return r;', 'return &self->r;', name='R5:reference result')])
F('rule__get_precedence', r'constexpr int get_precedence\(\)', 'int rule__get_precedence(const struct rule* self)', [member('precedence')])

PRELUDE = r'''
int vx_thrown;
typedef const void* vx_val;       /* R13: an opaque C++ value (functor, nterm, tuple of right-side items), identified by a ghost id */
struct rule { vx_val f; vx_val l; vx_val r; int precedence; int requires_context; };
'''
UNIT = Unit('rules', PRELUDE, fns)
UNIT.facts = [r'private:\s*F f;\s*L l;\s*std::tuple<R\.\.\.> r;\s*int precedence;\s*\};']
apply_spec(UNIT.fns, os.path.join(HERE, '..', 'contracts', 'rules.spec'))

# ---- native replay twin: build a rule through the public DSL and read it back
from vx import native as _N


def _twin_ops(o):
    return _N.TWIN_HEAD + """
constexpr nterm<int> e("e"); constexpr char_term plus('+', 1, associativity::ltor);
int main() {
    auto f = [](int a, char, int b) { return a + b; };
    auto g = [](int& ctx, int a, char, int b) { return a + b + ctx; };
    auto r1 = e(e, plus, e)[7] >= f;           // precedence first, functor second
    auto r2 = e(e, plus, e)[7] >>= g;          // ... a context functor
    auto r3 = (e(e, plus, e) >= f)[9];         // functor first, precedence second
    auto r4 = (e(e, plus, e) >>= g)[9];
    std::printf("precedences read back: %d %d %d %d (declared 7 7 9 9)\\n", r1.get_precedence(), r2.get_precedence(), r3.get_precedence(), r4.get_precedence());
    return (r1.get_precedence() == 7 && r2.get_precedence() == 7 && r3.get_precedence() == 9 && r4.get_precedence() == 9) ? 0 : 1;
}"""


for _n in ('rule__with_precedence', 'rule__with_ftor', 'rule__with_ctx_ftor', 'rule__ctor4', 'rule__get_precedence'):
    UNIT.fn(_n).twin = _twin_ops
