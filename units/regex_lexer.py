"""unit regex_lexer: ctpg::regex::regex_lexer (the library's own custom lexer for patterns).  R3: one instance, member
`specials` becomes a global; R7: Iterator -> const char*; R5: size_t& len -> size_t* len."""
import os, sys
sys.path.insert(0, os.path.dirname(os.path.abspath(__file__)))
from vx.core import Fn, Unit, apply_spec
from vx.lower import S, Call, Emit, Deref
import pcommon as PC

RL = [r'class\s+regex_lexer\b']
EMIT = Emit(r'error_stream', [(r'(sp)', 'vx_sp({0})'), (r'(.+)', '(unsigned long)({0})')], min=0)
RD = S(r'(?<![\w)\]])\*\s*start\b', r'(*vx_rd(start))', min=0, name='R7:buffer-iterator-deref')
REFCALL = Call(r'(?<![\w.])(match_escaped|match_range_item|match_range|match_primary)', lambda m, p: '%s(%s, %s, &(%s))' % (m.group(1), p[0], p[1], p[2]), min=0, name='R5:ref-arg')
COMMON = [EMIT, RD, S(r'return recognized_term\{\};', 'return recognized_term__default();', min=0, name='R16'),
          S(r'\bspecials\b', 'rl_specials', min=0, name='R3:member')]

fns = []


def F(name, header, csig, rules=(), **kw):
    f = Fn(name=name, header=header, csig=csig, scope=RL, rules=list(rules) + COMMON, between_ok=r'\s*', **kw)
    fns.append(f)


F('regex_lexer__ctor', r'constexpr\s+regex_lexer\(\)', 'void regex_lexer__ctor(void)')
F('rl_match_escaped', r'constexpr\s+bool\s+match_escaped\(Iterator start,\s*Iterator end,\s*size_t& len\)', 'bool match_escaped(const char* start, const char* end, size_t* len)', rules=[Deref('len')])
F('rl_match_range_item', r'constexpr\s+bool\s+match_range_item\(Iterator start,\s*Iterator end,\s*size_t& len\)', 'bool match_range_item(const char* start, const char* end, size_t* len)',
  rules=[Deref('len'), REFCALL])
F('rl_match_range', r'constexpr\s+bool\s+match_range\(Iterator start,\s*Iterator end,\s*size_t& len\)', 'bool match_range(const char* start, const char* end, size_t* len)', rules=[Deref('len'), REFCALL])
F('rl_match_primary', r'constexpr\s+bool\s+match_primary\(Iterator start,\s*Iterator end,\s*size_t& len\)', 'bool match_primary(const char* start, const char* end, size_t* len)', rules=[Deref('len'), REFCALL])
F('rl_recognized', r'constexpr\s+auto\s+recognized\(\s*size16_t idx,\s*size_t len,\s*match_options options,\s*source_point sp,\s*ErrorStream& error_stream\)',
  'struct recognized_term recognized(size16_t idx, size_t len, struct match_options options, struct source_point sp)',
  rules=[S(r'return recognized_term\(idx, len\);', 'return (struct recognized_term){ idx, len };', name='R16:ctor')])
F('rl_match', r'constexpr\s+auto\s+match\(\s*match_options options,\s*source_point sp,\s*Iterator start,\s*Iterator end,\s*ErrorStream& error_stream\)',
  'struct recognized_term rl_match(struct match_options options, struct source_point sp, const char* start, const char* end)',
  rules=[S(r'auto res = \[&\]\(size16_t idx, size_t len\)\s*\{ return recognized\(idx, len, options, sp, error_stream\); \};', '', name='R14:lambda-res'),
         Call(r'(?<![\w.])res', 'recognized({0}, {1}, options, sp)', min=3, name='R14:res-call'), REFCALL])
# the C names of the private helpers are the C++ names (they call each other by name)
for f in fns:
    f.name = {'rl_match_escaped': 'match_escaped', 'rl_match_range_item': 'match_range_item', 'rl_match_range': 'match_range', 'rl_match_primary': 'match_primary',
              'rl_recognized': 'recognized'}.get(f.name, f.name)

UTILS = []
for nm, hdr, sig in (('utils__char_to_idx', r'constexpr\s+size_t\s+char_to_idx\s*\(\s*char c\s*\)', 'size_t utils__char_to_idx(char c)'),
                     ('utils__is_printable', r'constexpr\s+bool\s+is_printable\s*\(\s*char c\s*\)', 'bool utils__is_printable(char c)'),
                     ('utils__is_hex_digit', r'constexpr\s+bool\s+is_hex_digit\s*\(\s*char c\s*\)', 'bool utils__is_hex_digit(char c)'),
                     ('utils__is_dec_digit', r'constexpr\s+bool\s+is_dec_digit\s*\(\s*char c\s*\)', 'bool utils__is_dec_digit(char c)')):
    UTILS.append(Fn(name=nm, header=hdr, csig=sig, between_ok=r'\s*', rules=[S(r'(?<![\w:])(char_to_idx|is_printable|is_hex_digit|is_dec_digit)\(', r'utils__\1(', min=0, name='R4:sibling helper (namespace utils)')]))       # inlined leaf helpers (under contract in unit utils)

PRELUDE = r'''
int vx_thrown;
struct source_point { vx_sp_line_t line; vx_sp_col_t column; };   /* member types from the real declaration (R16) */
struct match_options { bool verbose; };
struct recognized_term { size16_t term_idx; vx_rt_len_t len; };   /* member type from the real declaration (R16) */
static inline struct recognized_term recognized_term__default(void) { struct recognized_term r = { uninitialized16, uninitialized16 }; return r; }
static inline unsigned long vx_sp(struct source_point sp) { return ((unsigned long)sp.line << 32) | sp.column; }
size16_t rl_specials[256];                  /* R3: regex_lexer::specials (meta::distinct_chars_count entries) */
@@EV_ENUM@@
unsigned vx_ev_n; int vx_ev_kind; unsigned long vx_ev_a0, vx_ev_a1, vx_ev_a2;
void vx_emit(int kind, unsigned long a0, unsigned long a1, unsigned long a2) { if (vx_ev_n < 1000) vx_ev_n++; vx_ev_kind = kind; vx_ev_a0 = a0; vx_ev_a1 = a1; vx_ev_a2 = a2; }
const char* g_buf; size_t g_len; size_t g_k;
#define VX_OFF(p) ((size_t)__CPROVER_POINTER_OFFSET(p))
#define VX_MAXBUF 4096
/* R7: a dereference of a pattern iterator reads the pattern array, which keeps its NUL terminator at end(): [g_buf, g_buf+g_len] */
static inline const char* vx_rd(const char* p) { __CPROVER_assert(__CPROVER_same_object(p, g_buf) && VX_OFF(p) <= g_len, "VX_BUFFER read inside the pattern array (terminator included)"); return p; }
''' + open(os.path.join(os.path.dirname(os.path.abspath(__file__)), '..', 'contracts', 'regex_lexer.pre.h')).read()

UNIT = Unit('regex_lexer', PRELUDE, UTILS + fns, consts=PC.UNINIT)
UNIT.facts = [r'size16_t specials\[meta::distinct_chars_count\] = \{\};', r'constexpr size_t distinct_chars_count = distinct_values_count<char>;',
              r'constexpr size_t distinct_values_count = 1 << \(sizeof\(T\) \* 8\);', PC.FACTS[-1]]
UNIT.typedefs = PC.RT_TYPEDEFS
apply_spec(UNIT.fns, os.path.join(os.path.dirname(os.path.abspath(__file__)), '..', 'contracts', 'regex_lexer.spec'))
