"""unit dfa: regex::dfa_match (run loop), add_conflicted_term / mark_end_state (first-listed priority), dfa_size_analyzer,
dfa_builder primitives.  dfa<N> = cvector<dfa_state<N>, N> is lowered by R4 (struct dfa { the_data[PH_DFA]; current_size; N }),
N ghost (R9), physical maximum PH_DFA."""
import os, sys
sys.path.insert(0, os.path.dirname(os.path.abspath(__file__)))
from vx.core import Fn, Unit, apply_spec
from vx.lower import S, Call, Emit, RangeFor, Bound
import pcommon as PC

HERE = os.path.dirname(os.path.abspath(__file__))
EMIT = Emit(r'error_stream', [(r'(sp)', 'vx_sp({0})'), (r'utils::c_names\.name\((.*)\)', '(unsigned long)(unsigned char)({0})'), (r'(.+)', '(unsigned long)({0})')], min=0)
RD = S(r'(?<![\w)\]])\*\s*start\b', r'(*vx_rd(start))', min=0, name='R7:buffer-iterator-deref')

fns = []


def F(name, header, csig, rules=(), scope=None, **kw):
    f = Fn(name=name, header=header, csig=csig, scope=scope, rules=list(rules), between_ok=kw.pop('between_ok', r'\s*'), **kw)
    fns.append(f)


F('utils__char_to_idx', r'constexpr\s+size_t\s+char_to_idx\s*\(\s*char c\s*\)', 'size_t utils__char_to_idx(char c)')
F('source_point__update', r'constexpr\s+void\s+update\(Iterator start,\s*Iterator end\)', 'void source_point__update(struct source_point* self, const char* start, const char* end)',
  scope=[r'struct\s+source_point\b'], rules=[RD, S(r'(?<![\w.>])(line|column)\b', r'self->\1', name='R4:members')])

F('regex__add_conflicted_term', r'constexpr\s+void\s+add_conflicted_term\(conflicted_terms& ts,\s*size16_t t\)', 'void regex__add_conflicted_term(size16_t* ts, size16_t t)',
  rules=[Bound(r'ts', ['4'])])

F('regex__dfa_match', r'constexpr\s+auto\s+dfa_match\(\s*const dfa<N>& sm,\s*match_options options,\s*source_point sp,\s*Iterator start,\s*Iterator end,\s*ErrorStream& error_stream\)',
  'struct recognized_term regex__dfa_match(const struct dfa* sm, struct match_options options, struct source_point sp, const char* start, const char* end)',
  rules=[RangeFor([(r'state\.conflicted_recognition', '4', 'state->conflicted_recognition[vx_idx({i}, 4)]', 'size16_t', False)], min=0), EMIT, RD, S(r'recognized_term rt;', 'struct recognized_term rt = recognized_term__default();', name='R16'),
         S(r'const auto& state = sm\[([^;]*)\];', r'const struct dfa_state* state = &sm->the_data[vx_idx(\1, sm->current_size)];', name='R4:cvector-operator[]'),
         S(r'\bstate\.', 'state->'), Call(r'sp\.update', 'source_point__update(&sp, {args})', name='R4:sp.update'),
         Bound(r'state->conflicted_recognition', ['4']), Bound(r'state->transitions', ['256'])])

EMIT2 = Emit(r's', [(r'buf\.get_view\((.*)\)', '(unsigned long)(VX_OFF(buf_end) - VX_OFF(end))'), (r'(.+)', '(unsigned long)({0})')], min=0)
F('expr__match', r'constexpr\s+bool\s+match\(match_options opts,\s*const Buffer& buf,\s*Stream& s\)\s*const', 'bool expr__match(struct match_options opts, const char* buf_begin, const char* buf_end)',
  scope=[r'class\s+expr\b'],
  rules=[EMIT2, S(r'auto res = dfa_match\(sm, opts, source_point\{\}, buf\.begin\(\), buf\.end\(\), s\);', 'struct recognized_term res = regex__dfa_match(&expr_sm, opts, source_point__default(), buf_begin, buf_end);', name='R3:expr::sm'),
         S(r'auto end = buf\.begin\(\) \+ res\.len;', 'const char* end = buf_begin + res.len;', name='R7'), S(r'buf\.end\(\)', 'buf_end', min=1, name='R7:end')])

# ---------------------------------------------------------------- dfa_builder<N> (R3: one builder, its `sm` is the global b_sm)
DB = [r'class\s+dfa_builder\b']


def smcall(m, parts):
    meth = m.group(1)
    args = ', '.join(parts)
    if meth == 'size':
        return 'b_sm.current_size'
    if meth == 'back':
        return '(*dfa_back(&b_sm))'
    return 'dfa_%s(&b_sm%s)' % (meth, (', ' + args) if args else '')


DBR = [Call(r'(?<![\w.>])sm\.(size|back|push_back)', smcall, min=0, name='R4:sm.method'),
       S(r'(?<![\w.>])sm\[([^\]]*)\]', r'b_sm.the_data[vx_idx(\1, b_sm.current_size)]', min=0, name='R4:sm[i]'),
       S(r'\bdfa_state_n\(\)', 'dfa_state__default()', min=0, name='R16:dfa_state()'), S(r'\bdfa_state_n& (\w+) = ([^;]*);', r'struct dfa_state* \1 = &(\2);', min=0, name='R5:dfa_state&'),
       S(r'\bslice\{', '(struct utils__slice){', min=0, name='R16:slice'), Call(r'(?<![\w.])merge', lambda m, p: 'vx_merge_abs(%s)' % ', '.join((p + ['VX_MERGE_DEFAULT_KEEP', 'VX_MERGE_DEFAULT_MARK'][len(p) - 2:]) if len(p) < 4 else p), min=0, name='abstract callee: merge (default arguments from the real declaration)'),
       S(r'\bto\.end_state\b', 'to->end_state', min=0), S(r'\bs\.(start|n)\b', r's.\1', min=0)]
F('db_transition_c', r'constexpr\s+dfa_state_n&\s+transition\(dfa_state_n& from,\s*char c\)', 'struct dfa_state* db_transition_c(struct dfa_state* from, char c)', scope=DB,
  rules=[S(r'\bfrom\.transitions', 'from->transitions'), S(r'return sm\.back\(\);', 'return &(*dfa_back(&b_sm));', name='R5:return-ref'), Bound(r'from->transitions', ['256'])] + DBR)
F('db_transition_s', r'constexpr\s+dfa_state_n&\s+transition\(dfa_state_n& from,\s*const char_subset& s\)', 'struct dfa_state* db_transition_s(struct dfa_state* from, const struct char_subset* s)', scope=DB,
  rules=[S(r'\bfrom\.transitions', 'from->transitions'), S(r'\bs\.size\(\)', 'char_subset__size(s)'), S(r'\bs\.test\(', 'char_subset__test(s, '),
         S(r'return sm\.back\(\);', 'return &(*dfa_back(&b_sm));', name='R5:return-ref'), Bound(r'from->transitions', ['256'])] + DBR)
F('db_primary_subset', r'constexpr\s+slice\s+primary_subset\(const char_subset& s\)', 'struct utils__slice db_primary_subset(const struct char_subset* s)', scope=DB,
  rules=[S(r'sm\.back\(\)\.start_state = 1;', '(*dfa_back(&b_sm)).start_state = 1;', name='R5'), S(r'dfa_state_n& to = transition\(sm\.back\(\), s\);', 'struct dfa_state* to = db_transition_s(&(*dfa_back(&b_sm)), s);', name='R5:overload+ref'),
         S(r'\bto\.end_state\b', 'to->end_state')] + DBR)
F('db_opt', r'constexpr\s+slice\s+opt\(slice s\)', 'struct utils__slice db_opt(struct utils__slice s)', scope=DB, rules=DBR)
F('db_mark_end_state', r'constexpr\s+void\s+mark_end_state\(dfa_state_n& s,\s*size16_t idx\)', 'void db_mark_end_state(struct dfa_state* s, size16_t idx)', scope=DB,
  rules=[S(r'\bs\.end_state\b', 's->end_state'), S(r'add_conflicted_term\(s\.conflicted_recognition,', 'regex__add_conflicted_term(s->conflicted_recognition,')])
F('db_mark_end_states', r'constexpr\s+void\s+mark_end_states\(slice s,\s*size16_t idx\)', 'void db_mark_end_states(struct utils__slice s, size16_t idx)', scope=DB,
  rules=[S(r'mark_end_state\(sm\[i\], idx\)', 'db_mark_end_state(&sm[i], idx)', name='R5:ref-arg')] + DBR)
for nm, args in (('star', 'slice s'), ('plus', 'slice s'), ('cat', r'slice s1,\s*slice s2'), ('alt', r'slice s1,\s*slice s2')):
    cs = 'struct utils__slice db_%s(%s)' % (nm, 'struct utils__slice s' if 'slice s' == args else 'struct utils__slice s1, struct utils__slice s2')
    F('db_' + nm, r'constexpr\s+slice\s+%s\(%s\)' % (nm, args), cs, scope=DB, rules=DBR)
F('db_rep', r'constexpr\s+slice\s+rep\(slice s,\s*size32_t n\)', 'struct utils__slice db_rep(struct utils__slice s, size32_t n)', scope=DB,
  rules=[RangeFor([(r'sm\[j\]\.transitions', '256', 'b_sm.the_data[vx_idx(j, b_sm.current_size)].transitions[{i}]', 'size16_t', True),
                   (r'st\.transitions', '256', 'st->transitions[{i}]', 'size16_t', True)], min=2),
         S(r'sm\.push_back\(sm\[j\]\);', 'dfa_push_back(&b_sm, b_sm.the_data[vx_idx(j, b_sm.current_size)]);', name='R4:push_back(copy)'),
         S(r'auto& st = sm\.back\(\);', 'struct dfa_state* st = &(*dfa_back(&b_sm));', name='R5:st'),
         S(r'slice whole = s;', 'struct utils__slice whole = s;', name='R2:struct'),
         S(r'(?<![\w.])cat\(', 'db_cat(', name='R4:cat')] + DBR)
F('dfa_state__ctor', r'constexpr\s+dfa_state\(\)', 'void dfa_state__ctor(struct dfa_state* self)', scope=[r'struct\s+dfa_state\b'],
  rules=[RangeFor([(r'transitions', '256', 'self->transitions[{i}]', 'size16_t', True)])])
# cvector<dfa_state<N>, N>: the three members the builder uses (same one-line bodies as in unit stdex; T is a struct here)
import stdex as SX
DFAV = [f for f in SX.make_cvector('dfa', 'struct dfa_state') if f.name in ('dfa_push_back', 'dfa_back')]
for f in DFAV:
    f.harness, f.props = None, []
    f.contract = ''
fns.extend(DFAV)


F('db_primary_char', r'constexpr\s+slice\s+primary_char\(char c\)', 'struct utils__slice db_primary_char(char c)', scope=DB,
  rules=[S(r'return primary_subset\(char_subset\(char_range\(c\)\)\);', 'struct char_subset vx_cs = vx_char_subset_of_range(c, c); return db_primary_subset(&vx_cs);', name='R16:temporaries char_range/char_subset')])
ATD = [S(r'\bslice (prev|new_sl|whole|char_sl)\b', r'struct utils__slice \1', min=0, name='R2:struct'), S(r'slice prev\{0, size32_t\(b\.size\(\)\)\};', 'slice prev = {0, ((size32_t)(b_sm.current_size))};', name='R16:braced-init'),
       S(r'\bb\.(primary_char|mark_end_states|alt|cat)\(', r'db_\1(', min=2, name='R3:builder b'), S(r'using slice = utils::slice;', '', name='R1:alias')]
F('add_term_data_char', r'constexpr\s+void\s+add_term_data_to_dfa\(char c,\s*dfa_builder<N>& b,\s*size16_t idx\)', 'void add_term_data_char(char c, size16_t idx)', rules=ATD)
F('add_term_data_string', r'constexpr\s+void\s+add_term_data_to_dfa\(const char \(&str\)\[DataSize\],\s*dfa_builder<N>& b,\s*size16_t idx\)', 'void add_term_data_string(const char* str, size_t DataSize, size16_t idx)', rules=ATD)


# dfa_builder::merge itself: recursive; proved by induction on the call depth (--enforce-contract-rec).  The two references into sm
# (s_from, s_to) and the two references into their transition rows (tr_from, tr_to) are written back as the indexed expressions
# they are bound to (sm never reallocates: cvector) -- pointers into an array of structs are what CBMC 6.11 mis-simplifies (DESIGN.md 0.4)
MERGE_RULES = [S(r'dfa_state_n& s_from = sm\[from\];', '(void)vx_idx(from, b_sm.current_size);', name='R5:s_from bound to sm[from]'),
               S(r'dfa_state_n& s_to = sm\[to\];', '(void)vx_idx(to, b_sm.current_size);', name='R5:s_to bound to sm[to]'),
               S(r'size16_t& tr_from = s_from\.transitions\[i\];', '', name='R5:tr_from bound to s_from.transitions[i]'),
               S(r'size16_t& tr_to = s_to\.transitions\[i\];', '', name='R5:tr_to bound to s_to.transitions[i]'),
               S(r'auto& cr = s_from\.conflicted_recognition;', '', name='R5:cr bound to s_from.conflicted_recognition'),
               S(r'\bcr\[j\]', 'b_sm.the_data[from].conflicted_recognition[j]', name='R5:cr[j]'),
               S(r'\btr_from\b', 'b_sm.the_data[from].transitions[i]', min=3, name='R5:tr_from'), S(r'\btr_to\b', 'b_sm.the_data[to].transitions[i]', min=4, name='R5:tr_to'),
               S(r'\bs_to\.merged_from\.test\(from\)', 'VX_MF_TEST(b_sm.the_data[to].merged_from, from)', name='R4:cbitset.test'),
               S(r'\bs_to\.merged_from\.set\(from\)', 'VX_MF_SET(b_sm.the_data[to].merged_from, from)', name='R4:cbitset.set'),
               S(r'mark_end_state\(s_to, term_idx\)', 'db_mark_end_state(&b_sm.the_data[to], term_idx)', name='R5:ref-arg'),
               S(r'\bs_from\.', 'b_sm.the_data[from].', min=3, name='R5:s_from'), S(r'\bs_to\.', 'b_sm.the_data[to].', min=3, name='R5:s_to'),
               S(r'(?<![\w.])merge\(', 'db_merge(', name='R4:recursive call'),
               S(r'(?<![\w.>])sm\[([^;]*?)\]\.unreachable', r'b_sm.the_data[vx_idx(\1, b_sm.current_size)].unreachable', name='R4:sm[i]'),
               S(r'\btransitions_size\b', '256', name='R9:transitions_size')]
F('db_merge', r'constexpr\s+void\s+merge\(size_t to,\s*size_t from,\s*bool keep_end_state = false,\s*bool mark_from_as_unreachable = false\)',
  'void db_merge(size_t to, size_t from, bool keep_end_state, bool mark_from_as_unreachable)', scope=DB, rules=MERGE_RULES)
# the same text once more under a lighter contract for the quick tier: transition targets are *assumed* to be states in use ([L-wf]),
# which removes the 4 x 256 quantifier; the full contract (well-formedness preserved) is proved in the thorough tier
F('db_merge_q', r'constexpr\s+void\s+merge\(size_t to,\s*size_t from,\s*bool keep_end_state = false,\s*bool mark_from_as_unreachable = false\)',
  'void db_merge_q(size_t to, size_t from, bool keep_end_state, bool mark_from_as_unreachable)', scope=DB,
  rules=[r if getattr(r, 'name', '') != 'R4:recursive call' else S(r'(?<![\w.])merge\(', 'db_merge_q(', name='R4:recursive call') for r in MERGE_RULES])


def rep_shift_fragment(body):
    """the innermost loop of dfa_builder::rep: every transition of the copied state is shifted into the copy"""
    import re as _re
    ms = _re.findall(r'for \(auto& t : st\.transitions\)\s*\{[^{}]*\}', body)
    if len(ms) != 1:
        raise Exception('dfa_builder::rep: the transition-shifting loop was not found exactly once')
    return '{' + ms[0] + '}'


F('vx_rep_shift', r'constexpr\s+slice\s+rep\(slice s,\s*size32_t n\)', 'void vx_rep_shift(struct dfa_state* st, struct utils__slice s, size_t i)', scope=DB, fragment=rep_shift_fragment,
  rules=[RangeFor([(r'st\.transitions', '256', 'st->transitions[{i}]', 'size16_t', True)])])


def rep_zero_fragment(body):
    """the `if (n == 0) { ... }` block of dfa_builder::rep: X{0} keeps the slice's states but cuts them off"""
    import re as _re
    m = _re.search(r'if \(n == 0\)\s*\{', body)
    if not m:
        raise Exception('dfa_builder::rep: the n == 0 branch was not found')
    i, depth = m.end(), 1
    while depth:
        c = body[i]; depth += (c == '{') - (c == '}'); i += 1
    return body[m.end() - 1:i]


F('vx_rep_zero', r'constexpr\s+slice\s+rep\(slice s,\s*size32_t n\)', 'void vx_rep_zero(struct utils__slice s)', scope=DB, fragment=rep_zero_fragment,
  rules=[RangeFor([(r'sm\[j\]\.transitions', '256', 'b_sm.the_data[vx_idx(j, b_sm.current_size)].transitions[{i}]', 'size16_t', True)], min=1),
         S(r'return s;', 'return;', name='R2:the slice is returned unchanged (db_rep contract)')] + DBR)


def merge_rec_fragment(body):
    import re as _re
    ms = _re.findall(r'(?<![\w.])merge\(tr_to,\s*tr_from,\s*([^,()]+),\s*([^,()]+)\);', body)
    if len(ms) != 1:
        raise Exception('dfa_builder::merge: the recursive call was not found exactly once')
    return '{ __CPROVER_assert((%s) == keep_end_state && (%s) == mark_from_as_unreachable, "merge/flags: the recursive merge of the transition targets runs in the same mode (keep_end_state, mark_from_as_unreachable) as the merge that caused it"); }' % ms[0]


F('vx_merge_rec_flags', r'constexpr\s+void\s+merge\(size_t to,\s*size_t from,\s*bool keep_end_state = false,\s*bool mark_from_as_unreachable = false\)', 'void vx_merge_rec_flags(bool keep_end_state, bool mark_from_as_unreachable)',
  scope=[r'class\s+dfa_builder\b'], fragment=merge_rec_fragment)

SA = [r'class\s+dfa_size_analyzer\b']
SAM = S(r'(?<![\w.>])size\b(?!\s*\()', 'self->size', min=0, name='R4:member size')
SL = S(r'\bslice\{', '(struct utils__slice){', min=0, name='R16:slice')
for nm, hdr, sig, extra in (
        ('sa_prim', r'constexpr\s+slice\s+prim\(\)', 'struct utils__slice sa_prim(struct dfa_size_analyzer* self)', [S(r'auto old', 'size32_t old')]),
        ('sa_add', r'constexpr\s+slice\s+add\(slice s1,\s*slice s2\)', 'struct utils__slice sa_add(struct dfa_size_analyzer* self, struct utils__slice s1, struct utils__slice s2)', []),
        ('sa_rep', r'constexpr\s+slice\s+rep\(slice s,\s*size32_t n\)', 'struct utils__slice sa_rep(struct dfa_size_analyzer* self, struct utils__slice s, size32_t n)', [])):
    F(nm, hdr, sig, rules=extra + [SAM, SL], scope=SA)

for nm, params, csig in (('star', r'slice s', 'struct utils__slice sa_star(struct dfa_size_analyzer* self, struct utils__slice s)'),
                         ('plus', r'slice s', 'struct utils__slice sa_plus(struct dfa_size_analyzer* self, struct utils__slice s)'),
                         ('opt', r'slice s', 'struct utils__slice sa_opt(struct dfa_size_analyzer* self, struct utils__slice s)'),
                         ('cat', r'slice s1,\s*slice s2', 'struct utils__slice sa_cat(struct dfa_size_analyzer* self, struct utils__slice s1, struct utils__slice s2)'),
                         ('alt', r'slice s1,\s*slice s2', 'struct utils__slice sa_alt(struct dfa_size_analyzer* self, struct utils__slice s1, struct utils__slice s2)')):
    F('sa_' + nm, r'constexpr\s+slice\s+%s\(%s\)' % (nm, params), csig, scope=SA, rules=[S(r'(?<![\w.])add\(', 'sa_add(self, ', min=0, name='R4:add'), SAM, SL])
F('sa_primary_char', r'constexpr\s+slice\s+primary_char\(char\)', 'struct utils__slice sa_primary_char(struct dfa_size_analyzer* self, char c)', scope=SA, rules=[S(r'(?<![\w.])prim\(\)', 'sa_prim(self)', name='R4:prim')])
F('sa_primary_subset', r'constexpr\s+slice\s+primary_subset\(char_subset&&\)', 'struct utils__slice sa_primary_subset(struct dfa_size_analyzer* self)', scope=SA, rules=[S(r'(?<![\w.])prim\(\)', 'sa_prim(self)', name='R4:prim')])

SMALL = os.environ.get('VX_UNIT_VARIANT') == 'small'
PRELUDE = r'''
int vx_thrown;
#define PH_DFA %d''' % (4 if SMALL else 8) + r'''
struct source_point { vx_sp_line_t line; vx_sp_col_t column; };   /* member types from the real declaration (R16) */
struct match_options { bool verbose; };
struct recognized_term { size16_t term_idx; vx_rt_len_t len; };   /* member type from the real declaration (R16) */
struct utils__slice { size32_t start; size32_t n; };
struct dfa_size_analyzer { size32_t size; };
static inline struct source_point source_point__default(void) { struct source_point p = { 1, 1 }; return p; }
static inline struct recognized_term recognized_term__default(void) { struct recognized_term r = { uninitialized16, uninitialized16 }; return r; }
static inline unsigned long vx_sp(struct source_point sp) { return ((unsigned long)sp.line << 32) | sp.column; }
static inline size_t vx_idx(size_t i, size_t n) { __CPROVER_assert(i < n, "VX_BOUND subscript within the declared (logical) dimension"); return i; }
struct cbitset_N { uint64_t data[1]; };
struct cbitset256 { uint64_t data[4]; };        /* stdex::cbitset<256> inside char_subset */
#define VX_CAP PH_DFA       /* stdex::cbitset<N> for N <= 64 states (merged_from) */
struct dfa_state { size8_t start_state; size8_t end_state; size8_t unreachable; size16_t conflicted_recognition[4]; size16_t transitions[256]; struct cbitset_N merged_from; };
struct dfa { size_t current_size; size_t N; struct dfa_state the_data[PH_DFA]; };   /* scalar fields first: CBMC 6.11 struct-array quirk, DESIGN.md 8 */
@@EV_ENUM@@
unsigned vx_ev_n; int vx_ev_kind; unsigned long vx_ev_a0, vx_ev_a1, vx_ev_a2;
void vx_emit(int kind, unsigned long a0, unsigned long a1, unsigned long a2) { if (vx_ev_n < 1000) vx_ev_n++; vx_ev_kind = kind; vx_ev_a0 = a0; vx_ev_a1 = a1; vx_ev_a2 = a2; }
const char* g_buf; size_t g_len; size_t g_k;
void dfa_state__ctor(struct dfa_state* self);
/* R16: dfa_state{} = the default member initialisers of the real struct (pinned as a fact) followed by the real constructor body */
static inline struct dfa_state dfa_state__default(void) { struct dfa_state d; d.start_state = 0; d.end_state = 0; d.unreachable = 0;
  d.conflicted_recognition[0] = uninitialized16; d.conflicted_recognition[1] = uninitialized16; d.conflicted_recognition[2] = uninitialized16; d.conflicted_recognition[3] = uninitialized16;
  d.merged_from.data[0] = 0; dfa_state__ctor(&d); return d; }
struct dfa expr_sm; struct dfa b_sm;   /* R3: the automaton the one dfa_builder works on */
struct char_subset { struct cbitset256 data; };
/* char_subset::size() / test(): one-liners over cbitset<256> (pinned as facts; cbitset::test is under contract in unit stdex) */
static inline size_t char_subset__size(const struct char_subset* s) { return 256; }
static inline bool char_subset__test(const struct char_subset* s, size_t idx) { __CPROVER_assert(idx < 256, "cbitset<256>::check_idx"); return (s->data.data[idx / 64] >> (idx % 64)) & 1; }     /* R3: regex::expr<Pattern>::sm of the one instance under consideration */
size16_t g_ret_term; size_t g_ret_len;   /* ghost: the result dfa_match returned */
#define VX_OFF(p) ((size_t)__CPROVER_POINTER_OFFSET(p))
#define VX_MAXBUF 70000
static inline const char* vx_rd(const char* p) { __CPROVER_assert(__CPROVER_same_object(p, g_buf) && VX_OFF(p) < g_len, "VX_BUFFER read inside the caller's buffer"); return p; }
''' + open(os.path.join(HERE, '..', 'contracts', 'dfa.pre.h')).read()

UNIT = Unit('dfa', PRELUDE, fns, consts=PC.UNINIT + [
    ('VX_CHAR_TERM_DFA_SIZE', r'class char_term : public term\s*\{\s*public:\s*using internal_value_type = char;\s*static const size_t dfa_size = ([^;]+);', None),
    ('VX_STRING_TERM_DFA_SIZE', r'using internal_value_type = std::string_view;\s*static const size_t dfa_size = ([^;]+);\s*static const bool is_trivial = true;', None),
    ('VX_MERGE_DEFAULT_KEEP', r'constexpr void merge\(size_t to, size_t from, bool keep_end_state = (\w+), bool mark_from_as_unreachable = \w+\)', None),
    ('VX_MERGE_DEFAULT_MARK', r'constexpr void merge\(size_t to, size_t from, bool keep_end_state = \w+, bool mark_from_as_unreachable = (\w+)\)', None)])
UNIT.facts = [r'constexpr bool test\(size_t idx\) const \{ return data\.test\(idx\); \}', r'constexpr size_t size\(\) const \{ return data\.size\(\); \}', r'struct source_point\s*\{\s*\w+ line = 1;\s*\w+ column = 1;', r'using conflicted_terms = size16_t\[4\];', r'static const size_t transitions_size = meta::distinct_values_count<char>;',
              r'size8_t start_state = 0;\s*size8_t end_state = 0;\s*size8_t unreachable = 0;\s*conflicted_terms conflicted_recognition = \{ uninitialized16, uninitialized16, uninitialized16, uninitialized16 \};\s*size16_t transitions\[transitions_size\] = \{\};\s*stdex::cbitset<N> merged_from = \{\};',
              r'constexpr const T& operator\[\]\(size_type idx\) const \{ return the_data\[idx\]; \}',
              r'using dfa = stdex::cvector<dfa_state<N>, N>;', PC.FACTS[-1], PC.FACTS[5]]
UNIT.typedefs = PC.RT_TYPEDEFS
apply_spec(UNIT.fns, os.path.join(HERE, '..', 'contracts', 'dfa.spec'))
for _f in UNIT.fns:
    if SMALL:                    # the small variant exists for the full contract of merge only (thorough tier)
        if _f.name != 'db_merge':
            _f.harness = None
        else:
            _f.tier = 'thorough'
    elif _f.name == 'db_merge':
        _f.harness = None
# (dfa_builder::rep: its job finishes neither at 8 nor at 4 states within 25 min; the drafted contract stays in dfa.spec without a harness)


from vx import native as _N


def _twin_merge(hname):
    def tw(o):
        v = _N.trace_vals(o, hname)
        c = _N.to_int(v.get('c'), 255) & 0xff
        if c in (0, ord('a'), ord('b'), ord('c')):
            c = 255
        return _N.TWIN_HEAD + """#include <string>
// alternation / star / concatenation are built by merge: the union must keep an edge on every byte either side had one on
static constexpr char p1[] = "a|\\\\x%02x"; static constexpr char p2[] = "(b|\\\\x%02x)*c"; static constexpr char p3[] = "ab*\\\\x%02x";
constexpr regex::expr<p1> r1; constexpr regex::expr<p2> r2; constexpr regex::expr<p3> r3;
int main() {
    const char B = (char)0x%02x; int bad = 0;
    auto chk = [&](bool got, const char* what) { if (!got) { ++bad; std::printf("%%s: a string using byte 0x%02x of the pattern is rejected\\n", what); } };
    chk(r1.match(buffers::string_buffer(std::string(1, B))), "a|\\\\x%02x");
    chk(r2.match(buffers::string_buffer(std::string(1, B) + "b" + std::string(1, B) + "c")), "(b|\\\\x%02x)*c");
    chk(r3.match(buffers::string_buffer(std::string("abb") + std::string(1, B))), "ab*\\\\x%02x");
    return bad ? 1 : 0;
}""" % ((c,) * 8)
    return tw


UNIT.fn('db_merge_q').twin = _twin_merge('h_db_merge_q')
UNIT.fn('db_merge').twin = _twin_merge('h_db_merge')
