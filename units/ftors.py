"""unit ftors (C19): the helper functors _e1.._e9 (element<X>), val, create<T>, construct<T, FromIdx>, emplace_back<ContIdx, ArgIdx>,
push_back<ContIdx, ArgIdx>.  Their behaviour is in their *parameter lists*: `ignore<I>...` packs that swallow the arguments in front of
the one they want.  R22: the parameter list of the real operator() is parsed (from the matched header text) into a prologue over
the argument vector: a pack `ignore<P>...` advances the position by the pack's length, `T&& name` / `const T& name` binds the next
argument (with its value category and constness, R20), `Rest&&...` takes what is left.  The length of each pack is the expression
in the primary template's default argument `std::make_index_sequence<EXPR>` (grabbed from the text, template parameters as ghost
parameters, R9)."""
import os, sys, re
sys.path.insert(0, os.path.dirname(os.path.abspath(__file__)))
from vx.core import Fn, Unit, apply_spec
from vx.lower import S, Call, ExtractionBreak

HERE = os.path.dirname(os.path.abspath(__file__))
fns = []


def params_prologue(header, pfx=''):
    m = re.search(r'operator\s*\(\)\s*\((.*)\)\s*(const)?\s*$', header, re.S)
    if not m:
        raise ExtractionBreak('R22: no operator()(...) parameter list in %r' % header)
    out = ['size_t vx_pos = 0;']
    for item in [x.strip() for x in m.group(1).split(',') if x.strip()]:
        mi = re.fullmatch(r'ignore<(\w+)>\.\.\.', item)
        if mi:
            out.append('vx_skip(VX_PACK_%s%s); vx_pos += VX_PACK_%s%s;' % (pfx, mi.group(1), pfx, mi.group(1))); continue
        mi = re.fullmatch(r'(\w+)\s*&&\s*\.\.\.', item)
        if mi:
            out.append('/* %s: the remaining arguments, unnamed */' % item); continue
        mi = re.fullmatch(r'(const\s+)?(\w+)\s*(&&|&)\s*(\w+)', item)
        if mi:
            const, ref, name = bool(mi.group(1)), mi.group(3), mi.group(4)
            if ref == '&&' and const:
                raise ExtractionBreak('R22: const rvalue reference parameter %r' % item)
            kind = 'VX_BIND_FWD' if ref == '&&' else ('VX_BIND_CONST_LREF' if const else 'VX_BIND_LREF')
            out.append('__CPROVER_assert(vx_pos < n, "R22: there is an argument for parameter %s"); struct vx_ref %s = %s(args[vx_pos]); vx_pos++;' % (name, name, kind))
            continue
        raise ExtractionBreak('R22: parameter %r is not of a known shape' % item)
    return ' '.join(out) + ' '


def NAMES(*names):
    rules = []
    for nm in names:
        rules += [S(r'std::forward<\w+>\(%s\)' % nm, 'VX_FWD_%s' % nm, min=0, name='R20:std::forward<T>(%s)' % nm), S(r'std::move\(%s\)' % nm, 'VX_MOV_%s' % nm, min=0, name='R20:std::move(%s)' % nm),
                  S(r'(?<![\w.>])%s\b(?!\.)' % nm, 'vx_lvalue(%s)' % nm, min=0, name='R20:bare %s' % nm),
                  S(r'VX_FWD_%s' % nm, nm, min=0), S(r'VX_MOV_%s' % nm, 'vx_rvalue(%s)' % nm, min=0)]
    return rules


def F(name, scope, rules, hdr=r'constexpr (?:decltype\(auto\)|auto) operator\s*\(\)\s*\([^)]*\)\s*const'):
    f = Fn(name=name, header=hdr, csig='struct vx_ref %s(const struct vx_ref* args, size_t n)' % name, scope=scope, rules=list(rules), between_ok=r'\s*')
    f.header_hook = (lambda h: params_prologue(h, 'PB_')) if name.startswith('push_back') else params_prologue
    fns.append(f)


SPEC = lambda cls, flag: [r'struct %s<\s*ContIdx,\s*ArgIdx,\s*std::index_sequence<Skip1\.\.\.>,\s*std::index_sequence<Skip2\.\.\.>,\s*%s>\s*(?=\{)' % (cls, flag)]
F('element__call', [r'class element<X, std::index_sequence<I\.\.\.>>\s*(?=\{)'], NAMES('arg') + [S(r'return (\w+);', r'return \1;', min=1)])
F('construct__call', [r'struct construct<\s*T,\s*FromIdx,\s*std::index_sequence<Skip\.\.\.>>\s*(?=\{)'],
  [S(r'return T\{std::forward<Arg>\(arg\)\};', 'return vx_construct_T(arg);', name='R13:T{forwarded argument}')])
for cls in ('emplace_back', 'push_back'):
    for flag in ('true', 'false'):
        F('%s__call_%s' % (cls, 'cont_first' if flag == 'true' else 'arg_first'), SPEC(cls, flag),
          [S(r'container\.(emplace_back|push_back)\(std::move\(arg\)\);', r'vx_container_\1(container, vx_rvalue(arg));', min=0, name='R20:append a moved argument'),
           S(r'container\.(emplace_back|push_back)\(arg\);', r'vx_container_\1(container, vx_lvalue(arg));', min=0, name='R20:append the argument as an lvalue (copied)'),
           S(r'return std::move\(container\);', 'return vx_rvalue(container);', name='R20:std::move(container)')])
# val<T>: constructor (R19) and call; create<T>: call
VAL = [r'class val\s*(?=\{)']
fns.append(Fn(name='val__ctor', header=r'constexpr val\(T&& v\)', csig='void val__ctor(struct vx_val_obj* self, struct vx_ref v)', scope=VAL, ctor=True,
              rules=[S(r'std::forward<T>\(v\)', 'VX_FWD_v', name='R20'), Call(r'VX_INIT__(\w+)', 'self->{m1} = ({args})', name='R19:member initializer'), S(r'VX_FWD_v', 'v')]))
fns.append(Fn(name='val__call', header=r'constexpr auto operator \(\)\(Args&&\.\.\.\) const', csig='struct vx_ref val__call(const struct vx_val_obj* self, const struct vx_ref* args, size_t n)', scope=VAL,
              rules=[S(r'return v;', 'return vx_copy_of(self->v);', name='R20:returning a member by value copies it')], between_ok=r'\s*'))
fns.append(Fn(name='create__call', header=r'constexpr auto operator \(\)\(Args&&\.\.\.\) const', csig='struct vx_ref create__call(const struct vx_ref* args, size_t n)', scope=[r'class create\s*(?=\{)'],
              rules=[S(r'return T\{\};', 'return vx_default_T();', name='R16:T{}')], between_ok=r'\s*'))

PRELUDE = r'''
int vx_thrown;
typedef const void* vx_val;
enum { VX_LVALUE = 1, VX_RVALUE = 2 };
enum { VX_REF_PARAM = 0, VX_VALUE_PARAM = 1 };
#define VX_IGNORE_BY_VALUE ((VX_IGNORE_PARAM) == VX_VALUE_PARAM)
struct vx_ref { vx_val v; int cat; bool is_const; };        /* an argument: the object, how it was passed, whether it may be modified (moved from) */
static inline struct vx_ref vx_lvalue(struct vx_ref r) { r.cat = VX_LVALUE; return r; }
static inline struct vx_ref vx_rvalue(struct vx_ref r) { r.cat = VX_RVALUE; return r; }
#define VX_BIND_FWD(a) (a)                                   /* T&& x: binds as passed */
static inline struct vx_ref VX_BIND_CONST_LREF(struct vx_ref a) { a.is_const = 1; a.cat = VX_LVALUE; return a; }   /* const T& x */
static inline struct vx_ref VX_BIND_LREF(struct vx_ref a) { __CPROVER_assert(a.cat == VX_LVALUE && !a.is_const, "a non-const lvalue reference binds only to a modifiable lvalue"); return a; }
#define PH_ARGS 9
size_t X, FromIdx, ContIdx, ArgIdx;                          /* ghost template parameters (R9) */
#define VX_MIN(a, b) ((a) < (b) ? (a) : (b))
#define VX_MAX(a, b) ((a) > (b) ? (a) : (b))
struct vx_val_obj { struct vx_ref v; };
char vx_fresh_pool[4];
static inline struct vx_ref vx_copy_of(struct vx_ref r) { struct vx_ref x = { r.v, VX_RVALUE, 0 }; return x; }   /* a prvalue holding the same value */
static inline struct vx_ref vx_default_T(void) { struct vx_ref x = { &vx_fresh_pool[0], VX_RVALUE, 0 }; return x; }
/* ghost records */
int g_ct_calls; struct vx_ref g_ct_from;
static inline struct vx_ref vx_construct_T(struct vx_ref a) { g_ct_calls++; g_ct_from = a; struct vx_ref x = { &vx_fresh_pool[1], VX_RVALUE, 0 }; return x; }
int g_ap_calls, g_ap_kind; struct vx_ref g_ap_cont, g_ap_elem;
static inline void vx_container_emplace_back(struct vx_ref c, struct vx_ref e) { g_ap_calls++; g_ap_kind = 1; g_ap_cont = c; g_ap_elem = e; }
static inline void vx_container_push_back(struct vx_ref c, struct vx_ref e) { g_ap_calls++; g_ap_kind = 2; g_ap_cont = c; g_ap_elem = e; }
/* a skipped argument initialises an `ignore<k>` object: through ignore's constructor parameter.  `T&&` binds a reference (nothing is read);
   a by-value parameter `T` would copy or move-construct from the argument, i.e. read / consume it (R20) */
bool g_skipped_read;
static inline void vx_skip(size_t k) { if (k > 0 && VX_IGNORE_BY_VALUE) g_skipped_read = 1; }
#define VX_ARGS_OK (n >= 1 && n <= PH_ARGS && __CPROVER_r_ok(args, n * sizeof(struct vx_ref)))
'''
PACK = lambda macro, rx: (macro, rx, None)
UNIT = Unit('ftors', PRELUDE, fns, consts=[
    PACK('VX_IGNORE_PARAM', r'struct ignore\s*\{\s*template<typename T>\s*constexpr ignore\(\s*((?:const\s+)?T\s*(?:&&|&)?)\s*\)\s*\{\}\s*\};'),
    PACK('VX_PACK_I', r'template<size_t X, typename = std::make_index_sequence<([^>]+)>>\s*class element'),
    PACK('VX_PACK_Skip', r'template<typename T, std::size_t FromIdx = 1, typename = std::make_index_sequence<([^>]+)>>\s*struct construct'),
    PACK('VX_PACK_Skip1', r'typename = std::make_index_sequence<([^>]+)>,\s*typename = std::make_index_sequence<[^>]+>,\s*bool container_first = [^>]+>\s*struct emplace_back'),
    PACK('VX_PACK_Skip2', r'typename = std::make_index_sequence<[^>]+>,\s*typename = std::make_index_sequence<([^>]+)>,\s*bool container_first = [^>]+>\s*struct emplace_back'),
    PACK('VX_PACK_PB_Skip1', r'typename = std::make_index_sequence<([^>]+)>,\s*typename = std::make_index_sequence<[^>]+>,\s*bool container_first = [^>]+>\s*struct push_back'),
    PACK('VX_PACK_PB_Skip2', r'typename = std::make_index_sequence<[^>]+>,\s*typename = std::make_index_sequence<([^>]+)>,\s*bool container_first = [^>]+>\s*struct push_back')])
UNIT.const_rules = [S(r'^\s*(const\s+)?T\s*(&&|&)\s*$', 'VX_REF_PARAM', min=0), S(r'^\s*(const\s+)?T\s*$', 'VX_VALUE_PARAM', min=0), S(r'std::min\(', 'VX_MIN(', min=0), S(r'std::max\(', 'VX_MAX(', min=0), S(r'container_first = ', '', min=0)]
UNIT.facts = [r'private:\s*T v;\s*\};']
apply_spec(UNIT.fns, os.path.join(HERE, '..', 'contracts', 'ftors.spec'))

from vx import native as _N


def _twin_ftors(o):
    return _N.TWIN_HEAD + r"""#include <vector>
#include <string>
#include <memory>
static int copies = 0;
struct Tr { int v = 0; Tr() = default; explicit Tr(int v) : v(v) {} Tr(Tr&& o) noexcept : v(o.v) {} Tr& operator=(Tr&& o) noexcept { v = o.v; return *this; }
            Tr(const Tr& o) : v(o.v) { ++copies; } Tr& operator=(const Tr& o) { v = o.v; ++copies; return *this; } };
struct W { int from; explicit W(int x) : from(x) {} };
int main() {
    int bad = 0;
    auto chk = [&](bool ok, const char* what) { if (!ok) { ++bad; std::printf("%s\n", what); } };
    using namespace ftors;
    chk(_e1(11, 22, 33) == 11 && _e2(11, 22, 33) == 22 && _e3(11, 22, 33) == 33 && _e9(1, 2, 3, 4, 5, 6, 7, 8, 9) == 9 && _e5(1, 2, 3, 4, 5, 6, 7, 8, 9) == 5, "_eN does not return the N-th argument");
    { std::string s = "abc"; std::string&& r = _e2(0, std::move(s), 1); chk(&r == &s, "_eN does not forward the very object it was given"); }
    { auto p = std::make_unique<int>(1); int r = _e2(std::move(p), 5); chk(r == 5 && p != nullptr, "_e2 consumed (moved from) the argument it skips"); }
    chk(construct<W, 2>{}(7, 8, 9).from == 8 && construct<W>{}(7, 8).from == 7, "construct<T, I> does not build T from the I-th argument");
    chk(val(42)(1, 2, 3) == 42 && create<int>{}(5, 6) == 0, "val / create depend on their arguments");
    for (int variant = 0; variant < 5; ++variant) {
        std::vector<Tr> c; c.reserve(8); c.emplace_back(1); copies = 0;
        std::vector<Tr> r;
        if (variant == 0) r = emplace_back<1, 2>{}(std::move(c), Tr(2));                 // container first
        if (variant == 1) r = emplace_back<3, 1>{}(Tr(2), 0, std::move(c), 0);           // element first, one skipped in between
        if (variant == 2) r = push_back<1, 3>{}(std::move(c), 0, Tr(2), 0);
        if (variant == 3) r = push_back<2, 1>{}(Tr(2), std::move(c));
        if (variant == 4) r = push_back<3, 1>{}(Tr(2), Tr(9), std::move(c));             // element first, one argument in between
        bool moved_only = variant >= 2 ? copies <= 1 : copies == 0;                       // push_back may copy the element once, emplace_back must move it
        chk(r.size() == 2 && r[0].v == 1 && r[1].v == 2 && moved_only && c.empty(),
            variant == 0 ? "emplace_back<1,2>: wrong result or the element/container was copied" : variant == 1 ? "emplace_back<3,1>: wrong result or the element/container was copied"
            : variant == 2 ? "push_back<1,3>: wrong result or the container was copied" : variant == 3 ? "push_back<2,1>: wrong result or the container was copied" : "push_back<3,1>: wrong element appended or the container was copied");
    }
    return bad ? 1 : 0;
}"""


for _f in fns:
    _f.twin = _twin_ftors
