"""unit cvec_iter: stdex::cvector's iterator_base / iterator / const_iterator one-liners and begin()/end() (what lowering rule R8 --
cvector iterators are element offsets -- and the range-for rule R15 rely on), plus the two cvector constructors.
CRTP: cast() is static_cast<it_type*>(this), i.e. the object itself."""
import os, sys, re
sys.path.insert(0, os.path.dirname(os.path.abspath(__file__)))
from vx.core import Fn, Unit, apply_spec
from vx.lower import S, Call

HERE = os.path.dirname(os.path.abspath(__file__))
fns = []
CV = [r'class\s+cvector<T,\s*N,\s*std::enable_if_t<is_cvector_compatible<T>::value>>']
IB = CV + [r'struct\s+iterator_base\s*(?=\{)']
IT = CV + [r'struct\s+iterator\s*:\s*iterator_base<iterator>\s*(?=\{)']
CAST = [S(r'\*cast\(\)', '*self', min=0, name='R4:*cast()'), S(r'\bcast\(\)->ptr\b', 'self->ptr', min=0, name='R4:cast()->ptr (CRTP: the object itself)'),
        S(r'\bother\.ptr\b', 'other->ptr', min=0, name='R5:const it_type& other'),
        S(r'return it_type\{([^}]*)\};', r'{ struct cv_it vx_r = { \1 }; return vx_r; }', min=0, name='R16:it_type{..}'),
        S(r'it_type it\{([^}]*)\};', r'struct cv_it it = { \1 };', min=0, name='R16:it_type it{..}'),
        S(r'return \*self;', 'return self;', min=0, name='R5:reference result')]


def F(name, header, csig, rules=(), scope=IB, **kw):
    fns.append(Fn(name=name, header=header, csig=csig, scope=scope, rules=list(rules) + CAST, **kw))


S1 = 'const struct cv_it* self'
F('cv_it__eq', r'constexpr bool operator == \(const it_type& other\)', 'bool cv_it__eq(%s, const struct cv_it* other)' % S1)
F('cv_it__ne', r'constexpr bool operator != \(const it_type& other\)', 'bool cv_it__ne(%s, const struct cv_it* other)' % S1)
F('cv_it__minus', r'constexpr it_type operator - \(size_type amount\)', 'struct cv_it cv_it__minus(%s, size_t amount)' % S1)
F('cv_it__diff', r'constexpr size_type operator - \(const it_type& other\)', 'size_t cv_it__diff(%s, const struct cv_it* other)' % S1)
F('cv_it__plus', r'constexpr it_type operator \+ \(size_type amount\)', 'struct cv_it cv_it__plus(%s, size_t amount)' % S1)
F('cv_it__postinc', r'constexpr it_type operator \+\+\(int\)', 'struct cv_it cv_it__postinc(struct cv_it* self)')
F('cv_it__preinc', r'constexpr it_type& operator \+\+\(\)', 'struct cv_it* cv_it__preinc(struct cv_it* self)')
F('cv_it__gt', r'constexpr bool operator > \(const it_type& other\)', 'bool cv_it__gt(%s, const struct cv_it* other)' % S1)
F('cv_it__lt', r'constexpr bool operator < \(const it_type& other\)', 'bool cv_it__lt(%s, const struct cv_it* other)' % S1)
MEMB = Call(r'VX_INIT__(\w+)', 'self->{m1} = ({args})', name='R19:member initializer m(e)')
F('cv_it__ctor', r'constexpr iterator\(T\* ptr\)', 'void cv_it__ctor(struct cv_it* self, vx_T* ptr)', [MEMB], IT, ctor=True)
F('cv_it__deref', r'constexpr T& operator \*\(\)', 'vx_T* cv_it__deref(%s)' % S1, [S(r'return \*ptr;', 'return self->ptr;', name='R5:reference result')], IT)
MK = S(r'return iterator\(([^;]*)\);', r'{ struct cv_it vx_r; cv_it__ctor(&vx_r, \1); return vx_r; }', name='R19:iterator(p)')
MEMBERS = S(r'(?<![\w.>])(the_data|current_size)\b', r'self->\1', name='R4:members')
F('cvec__begin', r'constexpr iterator begin\(\)', 'struct cv_it cvec__begin(struct cvec* self)', [MK, MEMBERS], CV, between_ok=r'\s*')
F('cvec__end', r'constexpr iterator end\(\)', 'struct cv_it cvec__end(struct cvec* self)', [MK, MEMBERS], CV, between_ok=r'\s*')

PRELUDE = r'''
int vx_thrown;
typedef uint32_t vx_T;
#define VX_CAP 16
struct cv_it { vx_T* ptr; };
struct cvec { size_t current_size; size_t N; vx_T the_data[VX_CAP]; };
#define VX_OFF(p) ((size_t)__CPROVER_POINTER_OFFSET(p))
struct cvec g_v;                         /* the vector the iterators range over */
/* an iterator of g_v: points at element k <= current_size */
#define VX_IT_OK(it) (__CPROVER_same_object((it)->ptr, g_v.the_data) && VX_OFF((it)->ptr) >= VX_OFF(g_v.the_data) && (VX_OFF((it)->ptr) - VX_OFF(g_v.the_data)) % sizeof(vx_T) == 0 \
   && (VX_OFF((it)->ptr) - VX_OFF(g_v.the_data)) / sizeof(vx_T) <= g_v.current_size)
#define VX_POS(it) ((VX_OFF((it)->ptr) - VX_OFF(g_v.the_data)) / sizeof(vx_T))
#define VX_V_OK (g_v.N >= 1 && g_v.N <= VX_CAP && g_v.current_size <= g_v.N)
'''
UNIT = Unit('cvec_iter', PRELUDE, fns)
UNIT.facts = [r'struct iterator : iterator_base<iterator>\s*\{\s*T\* ptr;', r'constexpr it_type\* cast\(\) \{ return static_cast<it_type\*>\(this\); \}',
              r'constexpr const it_type\* cast\(\) const \{ return static_cast<const it_type\*>\(this\); \}']
apply_spec(UNIT.fns, os.path.join(HERE, '..', 'contracts', 'cvec_iter.spec'))
