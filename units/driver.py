"""unit driver: parser::context_parse loop and its helpers, parse_state lowered by R3 (fields -> globals ps_*),
semantic values lowered to ghost ids (R13), stream output to ghost events (R10)."""
import re, copy
from vx.core import Fn, Unit
from vx.lower import S, Call, Emit, Bound, Rule
import importlib.util, os, sys
sys.path.insert(0, os.path.dirname(os.path.abspath(__file__)))
import pcommon as PC
import stdex as SX

PARSER = PC.PARSER
PSTATE = [r'struct\s+parse_state\b']

# ------------------------------------------------------------------ R10 operand table
OPERANDS = [
    (r'(ps\.current_sp|sp)', 'vx_sp({0})'),
    (r'sv', '(unsigned long)(sv).n'),
    (r'\*\s*ps\.current_it', '(unsigned long)(unsigned char)(*ps.current_it)'),
    (r'(.+)', '(unsigned long)({0})'),
]
EMIT = Emit(r'ps\.error_stream|s', OPERANDS, min=0)


def cvcall(obj, pfx):
    """ps.<obj>.<method>(args) -> <pfx>_<method>(&ps_<obj>, args); T& results are dereferenced; begin/end are offsets (R8)"""
    def repl(m, parts):
        meth = m.group(1)
        args = ', '.join(parts)
        if meth == 'end':
            return '((ptrdiff_t)ps_%s.current_size)' % obj
        if meth == 'begin':
            return '((ptrdiff_t)0)'
        if meth == 'reserve':
            return '((void)0)'
        call = '%s_%s(&ps_%s%s)' % (pfx, meth, obj, (', ' + args) if args else '')
        return '(*%s)' % call if meth in ('back', 'front', 'at') else call
    return Call(r'ps\.%s\.(\w+)' % obj, repl, min=0, name='R4:ps.%s.method' % obj)


RD = S(r'(?<![\w)\]])\*\s*(start|ps\.current_it)\b', r'(*vx_rd(\1))', min=0, name='R7:buffer-iterator-deref')
PS = [
    EMIT, RD,
    S(r'std::forward<Context>\(ctx\)\s*,\s*', '', min=0, name='R13:ctx'),
    S(r'\(\s*ps\s*,\s*', '(', min=0, name='R3:ps-arg'),
    S(r'\(\s*ps\s*\)', '()', min=0, name='R3:ps-arg0'),
    S(r'ps\.(enter|leave|in)_(recovery|consume)_mode\(\)', r'ps__\1_\2_mode()', min=0, name='R3:ps-methods'),
    Call(r'ps\.current_sp\.update', 'source_point__update(&ps_current_sp, {args})', min=0, name='R4:sp.update'),
    cvcall('cursor_stack', 'cvec16'),
    cvcall('value_stack', 'cvecv'),
    S(r'\bps\.(\w+)', r'ps_\1', min=0, name='R3:ps-fields'),
    Bound(r'parse_table', ['state_count_cap', 'symbol_count']),
    Bound(r'gi\.rule_infos', ['rule_count']),
    Bound(r'gi\.right_sides', ['rule_count', 'max_rule_element_count']),
    Bound(r'term_names', ['term_count']),
    Bound(r'nterm_names', ['nterm_count']),
]
ENTRY = [S(r'const auto& entry = ([^;]*);', r'const struct parse_table_entry* entry = &(\1);'), S(r'\bentry\.', 'entry->')]
RI = [S(r'const auto& ri = ([^;]*);', r'const struct rule_info* ri = &(\1);'), S(r'\bri\.', 'ri->')]
RI2 = [S(r'const rule_info& ri = ([^;]*);', r'const struct rule_info* ri = &(\1);'), S(r'\bri\.', 'ri->')]


def TPL(name):   # template<typename ParseState> constexpr RET name(ParseState& ps ...) const
    return r'constexpr\s+[\w:&\s]+?\b%s\s*\(' % name


fns = []


def F(name, header, csig, rules=(), scope=PARSER, **kw):
    f = Fn(name=name, header=header, csig=csig, scope=scope, rules=list(rules) + PS, **kw)
    fns.append(f)
    return f


# parse_state's own one-liners (R3: free functions over the globals)
for a in ('enter', 'leave'):
    for m in ('recovery', 'consume'):
        F('ps__%s_%s_mode' % (a, m), r'constexpr\s+void\s+%s_%s_mode\(\)' % (a, m), 'void ps__%s_%s_mode(void)' % (a, m), scope=PSTATE,
          rules=[S(r'\b(recovery_mode|consume_mode)\b', r'ps_\1')], between_ok=r'\s*')
for m in ('recovery', 'consume'):
    F('ps__in_%s_mode' % m, r'constexpr\s+bool\s+in_%s_mode\(\)\s*const' % m, 'bool ps__in_%s_mode(void)' % m, scope=PSTATE,
      rules=[S(r'\b(recovery_mode|consume_mode)\b', r'ps_\1')], between_ok=r'\s*')

F('get_parse_table_idx', r'constexpr\s+static\s+size16_t\s+get_parse_table_idx\(bool term,\s*size16_t idx\)',
  'size16_t get_parse_table_idx(bool term, size16_t idx)', between_ok=r'\s*')

F('source_point__update', r'constexpr\s+void\s+update\(Iterator start,\s*Iterator end\)', 'void source_point__update(struct source_point* self, const char* start, const char* end)',
  scope=[r'struct\s+source_point\b'], rules=[S(r'(?<![\w.>])(line|column)\b', r'self->\1', name='R4:members')], between_ok=r'\s*')

F('utils__find_char', r'constexpr\s+size_t\s+find_char\s*\(\s*char c\s*,\s*const char\*\s*str\s*\)', 'size_t utils__find_char(char c, const char* str)', scope=None, between_ok=r'\s*')

F('write_rule_diag_str', r'constexpr\s+void\s+write_rule_diag_str\(Stream& s,\s*size16_t rule_info_idx\)\s*const', 'void write_rule_diag_str(size16_t rule_info_idx)',
  rules=RI2 + [S(r'if constexpr \((max_rule_element_count[^)]*)\)', r'if (\1)', name='R17')], between_ok=r'\s*')
F('get_symbol_name', r'constexpr\s+const char\*\s+get_symbol_name\(const symbol& s\)\s*const', 'const char* get_symbol_name(struct symbol s)', between_ok=r'\s*')

F('shift_recovery_token', TPL('shift_recovery_token') + r'ParseState& ps,\s*size16_t new_cursor_value\)\s*const', 'void shift_recovery_token(size16_t new_cursor_value)',
  rules=[S(r'term_value\(no_type\{\},\s*ps\.current_sp\)', 'vx_error_value(ps.current_sp)', name='R13:error-value')], between_ok=r'\s*')
F('shift', TPL('shift') + r'ParseState& ps,\s*const std::string_view& sv,\s*size16_t term_idx,\s*size16_t new_cursor_value\)\s*const',
  'void shift(struct vx_sv sv, size16_t term_idx, size16_t new_cursor_value)',
  rules=[S(r'const auto& ftor = term_ftors\[([^;]*)\];', r'size_t ftor = vx_idx(\1, term_count);', name='R13:ftor'),
         Call(r'(?<![\w.])ftor', 'vx_term_value(ftor, {1}, {2})', name='R13:term-value')], between_ok=r'\s*')
F('reduce', TPL('reduce') + r'Context&& ctx,\s*ParseState& ps,\s*size16_t rule_info_idx\)\s*const', 'void reduce(size16_t rule_info_idx)',
  body_pre=' unsigned vx_vs_epoch = 0, vx_start_epoch = 0;   /* ghost, local to reduce: allocation epoch of the value stack */ ',
  rules=RI + [S(r'value_variant_type\* start', 'vx_value* start', name='R13'), S(r'value_variant_type lvalue\(', 'vx_value lvalue = (', min=0, name='R13'), S(r'value_variant_type\{\}', 'vx_value_default()', min=0, name='R13:default-constructed variant'),
              S(r'ps\.reductors\.invoke\(', 'vx_invoke(', name='R13:invoke'), S(r'write_rule_diag_str\(ps\.error_stream,\s*', 'write_rule_diag_str(', name='R10')],
  between_ok=r'\s*')
F('rr_conflict', TPL('rr_conflict') + r'Context&& ctx,\s*ParseState& ps,\s*size16_t rule_idx\)\s*const', 'void rr_conflict(size16_t rule_idx)', between_ok=r'\s*')
F('pop_stacks', TPL('pop_stacks') + r'ParseState& ps\)\s*const', 'bool pop_stacks(void)', between_ok=r'\s*')
F('syntax_error', TPL('syntax_error') + r'ParseState& ps\)\s*const', 'void syntax_error(void)', between_ok=r'\s*')
F('success', TPL('success') + r'ParseState& ps\)\s*const', 'vx_value* success(void)',
  rules=[S(r'return std::get<root_value_type>\((.*)\);', r'return &(\1);', name='R13:get')], between_ok=r'\s*')
F('consume_term', TPL('consume_term') + r'ParseState& ps\)\s*const', 'void consume_term(void)', between_ok=r'\s*')
for a in ('enter', 'leave'):
    for m in ('recovery', 'consume'):
        F('%s_%s_mode' % (a, m), TPL('%s_%s_mode' % (a, m)) + r'ParseState& ps\)\s*const', 'void %s_%s_mode(void)' % (a, m), between_ok=r'\s*')
F('consume_term_recovering', TPL('consume_term_recovering') + r'ParseState& ps\)\s*const', 'bool consume_term_recovering(void)', between_ok=r'\s*')
F('get_current_term', TPL('get_current_term') + r'ParseState& ps\)\s*const', 'size16_t get_current_term(void)',
  rules=[S(r'auto after_ws', 'const char* after_ws'),
         S(r'recognized_term res;', 'struct recognized_term res = recognized_term__default();', name='R16'),
         S(r'match_options opts;', 'struct match_options opts = match_options__default();', name='R16'),
         S(r'opts\.set_verbose\(([^;]*)\);', r'opts.verbose = (\1);', name='R4:set_verbose'),
         S(r'if constexpr \(generate_lexer\)', 'if (VX_GENERATE_LEXER)', name='R17'),
         S(r'regex::dfa_match\(lexer_sm,\s*', 'vx_lexer_generated(', name='R3:lexer_sm'),
         S(r'lexer_type custom_lexer;', '', name='R3:custom-lexer-instance'),
         S(r'custom_lexer\.match\(', 'vx_lexer_custom(', name='R3:custom-lexer'),
         S(r',\s*ps\.error_stream\)', ')', min=2, name='R10:stream-arg')], between_ok=r'\s*')
F('skip_whitespace', TPL('skip_whitespace') + r'ParseState& ps\)\s*const', 'const char* skip_whitespace(void)',
  rules=[S(r'auto start = ', 'const char* start = ')], between_ok=r'\s*')
F('unexpected_char', TPL('unexpected_char') + r'ParseState& ps\)\s*const', 'void unexpected_char(void)', between_ok=r'\s*')
F('trace_recognized_term', TPL('trace_recognized_term') + r'ParseState& ps\)\s*const', 'void trace_recognized_term(void)', between_ok=r'\s*')


def loop_fragment(body):
    m = re.search(r'ps\.cursor_stack\.push_back\(0\);', body)
    if not m:
        raise Exception('context_parse: start of the driver fragment not found')
    return '{' + body[m.start():]


F('context_parse', r'constexpr\s+std::optional<root_value_type>\s+context_parse\(Context&& ctx,\s*parse_options options,\s*const Buffer& buffer,\s*ErrorStream& error_stream\)\s*const',
  'struct vx_opt context_parse(void)', fragment=loop_fragment,
  rules=ENTRY + [S(r'std::optional<root_value_type> root_value;', 'struct vx_opt root_value = {0, 0};', name='R13:optional'),
                 S(r'root_value = std::optional\(std::move\(success\(ps\)\)\);', 'root_value = vx_some(*success());', name='R13:optional'),
                 S(r'auto t_idx', 'size16_t t_idx'), S(r'buffer\.get_view\(', 'vx_get_view(', name='R7:get_view')], between_ok=r'\s*')

# the prologue the fragment drops: its content is pinned as static facts (initial parse_state)
FACTS = PC.FACTS + [
    # initial parse_state: each initializer the driver fragment relies on (others may be added to the class: see ps_members)
    r'\bcurrent_sp\{1, 1\}', r'\bcurrent_it\(buffer_begin\)', r'\bcurrent_end_it\(buffer_begin\)', r'\bbuffer_end\(buffer_end\)', r'\bcurrent_term_idx\(uninitialized16\)', r'\brecovery_mode\(false\)', r'\bconsume_mode\(false\)',
    r'detail::parse_state ps\(cursor_stack, value_stack, error_stream, options, buffer\.begin\(\), buffer\.end\(\), reductors\);\s*ps\.cursor_stack\.push_back\(0\);',
    r'constexpr match_options& set_verbose\(bool val = true\) \{ verbose = val; return \*this; \}',
    r'constexpr std::string_view get_view\(iterator start, iterator end\) const \{ return std::string_view\(start\.ptr, end\.ptr - start\.ptr\); \}',
] + SX.FACTS

PRELUDE = PC.types(6, 10, 6, 4, 6, 4) + r'''
int vx_thrown;
#define VX_CAP 8
''' + SX.cvector_struct('cvec16', 'size16_t') + r'''
typedef uint32_t vx_value;                 /* R13: a semantic value is a ghost identifier */
static inline vx_value vx_value_default(void) { return 0; }   /* value_variant_type{}: no value (id 0 is never allocated) */
''' + SX.cvector_struct('cvecv', 'vx_value') + r'''
struct vx_sv { const char* p; size_t n; };  /* R12: std::string_view */
struct vx_opt { bool has; vx_value v; };    /* R13: std::optional<root_value_type> */
static inline struct vx_opt vx_some(vx_value v) { struct vx_opt o = { 1, v }; return o; }
static inline struct vx_sv vx_get_view(const char* a, const char* b) { struct vx_sv s = { a, (size_t)(b - a) }; return s; }
static inline struct recognized_term recognized_term__default(void) { struct recognized_term r = { uninitialized16, uninitialized16 }; return r; }
static inline struct match_options match_options__default(void) { struct match_options r = { 0 }; return r; }
static inline unsigned long vx_sp(struct source_point sp) { return ((unsigned long)sp.line << 32) | sp.column; }

/* ---- parser members (R3: one instance; arbitrary, constrained only by contracts) ---- */
struct parse_table_entry parse_table[PH_STATES][PH_SYMS];
struct grammar_info gi;
size16_t state_count;
const char* term_names[PH_TERMS]; const char* nterm_names[PH_NTERMS];
bool VX_GENERATE_LEXER;                     /* R17: both branches of `if constexpr (generate_lexer)` in one run */

/* ---- parse_state fields (R3) ---- */
struct cvec16 ps_cursor_stack; struct cvecv ps_value_stack;
struct parse_options ps_options; struct source_point ps_current_sp;
const char *ps_current_it, *ps_current_end_it, *ps_buffer_end;
size16_t ps_current_term_idx; bool ps_recovery_mode, ps_consume_mode;

/* ---- ghost: event log (R10) ---- */
@@EV_ENUM@@
unsigned vx_ev_n; int vx_ev_kind; unsigned long vx_ev_a0, vx_ev_a1, vx_ev_a2;
void vx_emit(int kind, unsigned long a0, unsigned long a1, unsigned long a2)
{ if (vx_ev_n < 1000) vx_ev_n++; vx_ev_kind = kind; vx_ev_a0 = a0; vx_ev_a1 = a1; vx_ev_a2 = a2; }

/* ---- ghost: semantic values (R13) ---- */
vx_value vx_next_id;                        /* fresh-id counter */
unsigned vx_tv_n; size_t vx_tv_term; const char* vx_tv_p; size_t vx_tv_len; unsigned long vx_tv_sp; vx_value vx_tv_id;
vx_value vx_term_value(size_t term, struct vx_sv sv, struct source_point sp)
{ if (vx_tv_n < 1000) vx_tv_n++; vx_tv_term = term; vx_tv_p = sv.p; vx_tv_len = sv.n; vx_tv_sp = vx_sp(sp); vx_tv_id = vx_next_id; __CPROVER_assume(vx_next_id < 0xfffffff0u); return vx_next_id++; }
unsigned vx_ev_err_n; unsigned long vx_ev_err_sp;
vx_value vx_error_value(struct source_point sp)
{ if (vx_ev_err_n < 1000) vx_ev_err_n++; vx_ev_err_sp = vx_sp(sp); __CPROVER_assume(vx_next_id < 0xfffffff0u); return vx_next_id++; }
size16_t vx_rule_len[PH_RULES];             /* ghost: Rules::n by source-order rule number */
unsigned vx_inv_n; size_t vx_inv_rule; vx_value vx_inv_arg[PH_MAXLEN]; vx_value vx_inv_id; size_t vx_inv_len;
vx_value vx_invoke(size_t rule, vx_value* start)
{
  __CPROVER_assert(rule < rule_count, "vx_invoke: rule number within rule_count");
  if (vx_inv_n < 1000) vx_inv_n++;
  vx_inv_rule = rule; vx_inv_len = vx_rule_len[rule];
  if (0 < vx_inv_len) vx_inv_arg[0] = start[0];
  if (1 < vx_inv_len) vx_inv_arg[1] = start[1];
  if (2 < vx_inv_len) vx_inv_arg[2] = start[2];
  if (3 < vx_inv_len) vx_inv_arg[3] = start[3];
  vx_inv_id = vx_next_id; __CPROVER_assume(vx_next_id < 0xfffffff0u); return vx_next_id++;
}
/* ---- ghost: lexer (replaced by contract) ---- */
unsigned vx_lex_n; const char* vx_lex_start; const char* vx_lex_end;
/* ---- ghost: the caller's buffer ---- */
const char* g_buf; size_t g_len;            /* [g_buf, g_buf + g_len) */
size_t g_k;                                  /* ghost-chosen index */
#define VX_OFF(p) ((size_t)__CPROVER_POINTER_OFFSET(p))
#define VX_MAXBUF 70000
/* R7: every dereference of a buffer iterator is a read of the caller's buffer: must lie in [g_buf, g_buf+g_len) */
static inline const char* vx_rd(const char* p) { __CPROVER_assert(__CPROVER_same_object(p, g_buf) && VX_OFF(p) < g_len, "VX_BUFFER read inside the caller's buffer"); return p; }
const char* g_pos;                           /* ghost: the buffer position that ps_current_sp describes (C10) */
unsigned g_sp_line, g_sp_col;                /* ghost: line/column counters written from the statement of C10 */
unsigned long g_trace_rule; unsigned g_trace_rule_n;   /* ghost: rule number printed by the verbose 'Reduced using rule' line (C16) */
''' + open(os.path.join(os.path.dirname(os.path.abspath(__file__)), '..', 'contracts', 'driver.pre.h')).read()

CV = SX.make_cvector('cvec16', 'size16_t') + SX.make_cvector('cvecv', 'vx_value')
for f in CV:           # proved in unit stdex (same text, both instantiations); here they are callees only
    f.harness, f.props = None, []
UNIT = Unit('driver', PRELUDE, CV + fns,
            consts=PC.UNINIT + PC.CONSTS)
# C12 stack capacities for cstring_buffer: both expressions are grabbed from the real text (R9: N, EmptyRulesCount are ghost parameters)
UNIT.consts = UNIT.consts + [
    ('VX_CURSOR_STACK_CAP', r'struct parse_table_cursor_stack_type<buffers::cstring_buffer<N>, EmptyRulesCount>\s*\{\s*using type = stdex::cvector<size16_t,\s*([^>]+)>;', None),
    ('VX_VALUE_STACK_CAP', r'std::enable_if_t<stdex::is_cvector_compatible<ValueVariantType>::value>\s*>\s*\{\s*using type = stdex::cvector<ValueVariantType,\s*([^>]+)>;', None)]
from vx.lower import S as _S
UNIT.const_rules = PC.CONST_RULES + [_S(r'\bN\b', 'P_BUFN', min=0, name='R9:N'), _S(r'\bEmptyRulesCount\b', 'P_EMPTY', min=0, name='R9:EmptyRulesCount')]
stack_caps = Fn(name='vx_stack_caps', header=r'struct parse_table_cursor_stack_type<buffers::cstring_buffer<N>, EmptyRulesCount>', csig='size_t vx_stack_caps(void)',
                fragment=lambda body: '{ return VX_CURSOR_STACK_CAP; }', between_ok=r'\s*')
UNIT.fns.append(stack_caps)
UNIT.enums = PC.ENUMS
UNIT.facts = FACTS
UNIT.typedefs = PC.RT_TYPEDEFS


def ps_members(src):
    """R3: data members of detail::parse_state that the recipe does not list become globals ps_<name> too (types the lowering knows);
    a member of any other type is an extraction break"""
    from vx.lower import ExtractionBreak
    known = {'cursor_stack', 'value_stack', 'error_stream', 'options', 'current_sp', 'current_it', 'current_end_it', 'buffer_end', 'reductors', 'current_term_idx', 'recovery_mode', 'consume_mode'}
    ctype = {'source_point': 'struct source_point', 'parse_options': 'struct parse_options', 'bool': 'bool', 'size_t': 'size_t', 'size16_t': 'size16_t', 'size32_t': 'size32_t', 'int': 'int', 'char': 'char', 'iterator': 'const char*'}
    lo, hi = src.scope(PSTATE)
    body = src.text[lo:hi]
    tail = body[body.index('using iterator = Iterator;'):]
    out, seen = [], set()
    for m in re.finditer(r'(?m)^\s*((?:const\s+)?[\w:]+(?:\s*&)?)\s+(\w+)\s*;', tail):
        t, n = m.group(1).strip(), m.group(2)
        seen.add(n)
        if n in known:
            continue
        if t not in ctype:
            raise ExtractionBreak('parse_state has a new member %s of type %s the lowering has no C type for' % (n, t))
        out.append('%s ps_%s;   /* parse_state::%s (not in the recipe: declared from the real text) */' % (ctype[t], n, n))
    if not known <= seen:
        raise ExtractionBreak('parse_state lost members: %s' % sorted(known - seen))
    return '\n'.join(out) + '\n'


UNIT.prelude_hook = ps_members
from vx.core import apply_spec
apply_spec(UNIT.fns, os.path.join(os.path.dirname(os.path.abspath(__file__)), '..', 'contracts', 'driver.spec'))
