"""unit utils: ctpg::utils string helpers (C17 find_str, C04 find_char, C06 char_to_idx ...)"""
from vx.core import Fn, Unit
from vx.lower import S, RangeFor, Call

MAXS = 4096

PRELUDE = r'''
struct utils__char_names { char arr[256][5]; };   /* char arr[meta::distinct_chars_count][name_size] */
static inline size_t vx_idx(size_t i, size_t n) { __CPROVER_assert(i < n, "VX_BOUND subscript within the declared (logical) dimension"); return i; }

#define VX_MAXS 4096
#define VX_HEXDIGIT(v) ((char)((v) < 10 ? '0' + (v) : 'A' + ((v) - 10)))

int vx_thrown;
/* ghost description of the two NUL-terminated strings the harness built */
const char *g_s1, *g_s2; size_t g_n1, g_n2;   /* g_sX[g_nX] == 0, no NUL before */
size_t g_k;                                    /* ghost-chosen index */
size_t g_stop;                                 /* ghost observation: offset where the scan stopped */
#define VX_OFF(p) ((size_t)__CPROVER_POINTER_OFFSET(p))
#define VX_ISSTR(s, n) (__CPROVER_r_ok(s, (n) + 1) && VX_OFF(s) == 0 && (n) < VX_MAXS && (s)[n] == 0 && (g_k < (n) ==> (s)[g_k] != 0))
#define VX_STR1 (str1 == g_s1 && VX_ISSTR(g_s1, g_n1))
#define VX_STR2 (str2 == g_s2 && VX_ISSTR(g_s2, g_n2))
/* find_str ghost: table of N strings; g_t is the ghost-chosen table index */
size_t g_N, g_t;
'''

str_equal = Fn(
    name='utils__str_equal',
    header=r'constexpr\s+bool\s+str_equal\s*\(\s*const char\*\s*str1\s*,\s*const char\*\s*str2\s*\)',
    csig='bool utils__str_equal(const char* str1, const char* str2)',
    contract=r"""
__CPROVER_requires(VX_STR1 && VX_STR2)
__CPROVER_assigns(g_stop)
/* the scan stopped inside both strings; everything before the ghost-chosen index agrees */
__CPROVER_ensures(g_stop <= g_n1 && g_stop <= g_n2 && (g_k < g_stop ==> g_s1[g_k] == g_s2[g_k]))
/* equal => stopped at a NUL of both which is the first one (no ghost-chosen earlier position is the stop), hence same length */
__CPROVER_ensures(g_stop <= g_n1 && g_stop <= g_n2 && (__CPROVER_return_value ==> (g_s1[g_stop] == 0 && g_s2[g_stop] == 0 && (g_k < g_n1 || g_k < g_n2 ==> g_k != g_stop))))
/* not equal => a witness position where the bytes differ */
__CPROVER_ensures(g_stop <= g_n1 && g_stop <= g_n2 && (!__CPROVER_return_value ==> g_s1[g_stop] != g_s2[g_stop]))
""",
    loops={0: r"""
__CPROVER_assigns(str1, str2)
__CPROVER_loop_invariant(__CPROVER_same_object(str1, g_s1) && __CPROVER_same_object(str2, g_s2)
   && VX_OFF(str1) == VX_OFF(str2) && VX_OFF(str1) <= g_n1 && VX_OFF(str2) <= g_n2
   && (g_k < VX_OFF(str1) ==> g_s1[g_k] == g_s2[g_k]))
__CPROVER_decreases(g_n1 - VX_OFF(str1))
"""},
    weave=[dict(where='fn-end', code='g_stop = VX_OFF(str1);')],      # ghost observation at every return, whatever it returns
    harness=r"""
void h_utils__str_equal(void) {
  size_t n1, n2; __CPROVER_assume(n1 < VX_MAXS && n2 < VX_MAXS);
  char *a = malloc(n1 + 1), *b = malloc(n2 + 1); __CPROVER_assume(a && b);
  g_s1 = a; g_s2 = b; g_n1 = n1; g_n2 = n2;
  size_t k; g_k = k;
  utils__str_equal(a, b);
}""",
    props=['C17'],
)

find_char = Fn(
    name='utils__find_char',
    header=r'constexpr\s+size_t\s+find_char\s*\(\s*char c\s*,\s*const char\*\s*str\s*\)',
    csig='size_t utils__find_char(char c, const char* str)',
    contract=r"""
__CPROVER_requires(str == g_s1 && VX_ISSTR(g_s1, g_n1))
__CPROVER_assigns(g_stop)
/* found: the index is inside the string, holds c, and no earlier (ghost-chosen) position does */
__CPROVER_ensures(__CPROVER_return_value != uninitialized ==> (__CPROVER_return_value < g_n1 && g_s1[__CPROVER_return_value] == c && (g_k < __CPROVER_return_value ==> g_s1[g_k] != c)))
/* not found: the scan ran to a NUL at g_stop (the first one: it is no ghost-chosen earlier position) and the ghost-chosen position before it does not hold c */
__CPROVER_ensures(__CPROVER_return_value == uninitialized ==> (g_stop <= g_n1 && g_s1[g_stop] == 0 && (g_k < g_n1 ==> g_k != g_stop) && (g_k < g_stop ==> g_s1[g_k] != c)))
""",
    loops={0: r"""
__CPROVER_assigns(str, i)
__CPROVER_loop_invariant(__CPROVER_same_object(str, g_s1) && VX_OFF(str) <= g_n1 && i == VX_OFF(str)
   && (g_k < i ==> g_s1[g_k] != c))
__CPROVER_decreases(g_n1 - i)
"""},
    weave=[dict(at=r'return\s+uninitialized\s*;', code='g_stop = VX_OFF(str);', where='before')],
    harness=r"""
void h_utils__find_char(void) {
  size_t n1; __CPROVER_assume(n1 < VX_MAXS);
  char *a = malloc(n1 + 1); __CPROVER_assume(a);
  g_s1 = a; g_n1 = n1; size_t k; g_k = k; char c;
  utils__find_char(c, a);
}""",
    props=['C04'],
)

str_len = Fn(
    name='utils__str_len',
    header=r'constexpr\s+std::size_t\s+str_len\s*\(\s*const char\*\s*str\s*\)',
    csig='size_t utils__str_len(const char* str)',
    contract=r"""
__CPROVER_requires(str == g_s1 && VX_ISSTR(g_s1, g_n1) && (g_n1 > 0 ==> g_k == g_n1 - 1))
__CPROVER_assigns()
__CPROVER_ensures(__CPROVER_return_value == g_n1 || (g_n1 >= 2 && __CPROVER_return_value < g_n1 - 1 && g_s1[__CPROVER_return_value] == 0))
""",
    loops={0: r"""
__CPROVER_assigns(p, i)
__CPROVER_loop_invariant(__CPROVER_same_object(p, g_s1) && VX_OFF(p) <= g_n1 && i == VX_OFF(p))
__CPROVER_decreases(g_n1 - i)
"""},
    harness=r"""
void h_utils__str_len(void) {
  size_t n1; __CPROVER_assume(n1 < VX_MAXS);
  char *a = malloc(n1 + 1); __CPROVER_assume(a);
  g_s1 = a; g_n1 = n1; size_t k; g_k = k;
  utils__str_len(a);
}""",
    props=['C17'],
)
char_to_idx = Fn(
    name='utils__char_to_idx',
    header=r'constexpr\s+size_t\s+char_to_idx\s*\(\s*char c\s*\)',
    csig='size_t utils__char_to_idx(char c)',
    contract=r'''
__CPROVER_assigns()
__CPROVER_ensures(__CPROVER_return_value < 256 && __CPROVER_return_value == (size_t)(unsigned char)c)
''',
    harness='void h_utils__char_to_idx(void) { char c; utils__char_to_idx(c); }',
    props=['C06'],
)

idx_to_char = Fn(
    name='utils__idx_to_char',
    header=r'constexpr\s+char\s+idx_to_char\s*\(\s*size_t idx\s*\)',
    csig='char utils__idx_to_char(size_t idx)',
    contract=r'''
__CPROVER_assigns()
__CPROVER_ensures((idx < 256) ==> (size_t)(unsigned char)__CPROVER_return_value == idx)
''',
    harness='void h_utils__idx_to_char(void) { size_t i; utils__idx_to_char(i); }',
    props=['C06'],
)

is_printable = Fn(
    name='utils__is_printable',
    header=r'constexpr\s+bool\s+is_printable\s*\(\s*char c\s*\)',
    csig='bool utils__is_printable(char c)',
    rules=[S(r'(?<![\w:])(char_to_idx|is_printable|is_hex_digit|is_dec_digit)\(', r'utils__\1(', min=0, name='R4:sibling helper (namespace utils)')],
    contract=r'''
__CPROVER_assigns()
__CPROVER_ensures(__CPROVER_return_value == ((unsigned char)c >= 0x20 && (unsigned char)c <= 0x7e))
''',
    harness='void h_utils__is_printable(void) { char c; utils__is_printable(c); }',
    props=['C17'],
)

is_hex_digit = Fn(
    name='utils__is_hex_digit',
    header=r'constexpr\s+bool\s+is_hex_digit\s*\(\s*char c\s*\)',
    csig='bool utils__is_hex_digit(char c)',
    rules=[S(r'(?<![\w:])(char_to_idx|is_printable|is_hex_digit|is_dec_digit)\(', r'utils__\1(', min=0, name='R4:sibling helper (namespace utils)')],
    contract=r'''
__CPROVER_assigns()
__CPROVER_ensures(__CPROVER_return_value == ((c >= 48 && c <= 57) || (c >= 97 && c <= 102) || (c >= 65 && c <= 70)))
''',
    harness='void h_utils__is_hex_digit(void) { char c; utils__is_hex_digit(c); }',
    props=['C17'],
)

is_dec_digit = Fn(
    name='utils__is_dec_digit',
    header=r'constexpr\s+bool\s+is_dec_digit\s*\(\s*char c\s*\)',
    csig='bool utils__is_dec_digit(char c)',
    rules=[S(r'(?<![\w:])(char_to_idx|is_printable|is_hex_digit|is_dec_digit)\(', r'utils__\1(', min=0, name='R4:sibling helper (namespace utils)')],
    contract=r'''
__CPROVER_assigns()
__CPROVER_ensures(__CPROVER_return_value == (c >= 48 && c <= 57))
''',
    harness='void h_utils__is_dec_digit(void) { char c; utils__is_dec_digit(c); }',
    props=['C17'],
)

# find_str: template<size_t N> over str_table<N>; N becomes a ghost parameter (R9), the
# reference-to-array parameter a pointer (R5), the range-for an indexed loop (R15).
# str_equal is replaced by an *abstract* contract (uninterpreted result vx_eq[i]) here: find_str's
# own property is about which index is returned, given the equality verdicts.
find_str = Fn(
    name='utils__find_str',
    header=r'constexpr\s+size_t\s+find_str\s*\(\s*const str_table<N>&\s*table\s*,\s*const char\*\s*str\s*\)',
    csig='size_t utils__find_str(const char* const* table, size_t N, const char* str)',
    rules=[RangeFor([(r'table', 'N', 'table[{i}]', 'const char*', False)]),
           Call(r'str_equal', 'vx_str_equal_abs({args})', min=1)],
    contract=r'''
__CPROVER_requires(N >= 1 && N <= 32 && N == g_N && __CPROVER_r_ok(table, N * sizeof(char*)) && g_t < N && vx_thrown == 0)
__CPROVER_requires(__CPROVER_forall { size_t q; (q < 32) ==> (q < N ==> table[q] == vx_pool + q) })
__CPROVER_assigns(vx_thrown)
/* returns the first index whose entry equals str; never the `uninitialized` value; every index < N */
__CPROVER_ensures(__CPROVER_return_value < N)
__CPROVER_ensures(vx_eq[__CPROVER_return_value])
__CPROVER_ensures(g_t < __CPROVER_return_value ==> !vx_eq[g_t])
''',
    loops={0: r'''
__CPROVER_assigns(VX_IDX, res)
__CPROVER_loop_invariant(VX_IDX <= N && res == VX_IDX && (g_t < VX_IDX ==> !vx_eq[g_t]))
__CPROVER_decreases(N - VX_IDX)
'''},
    harness=r'''
void h_utils__find_str(void) {
  size_t N; __CPROVER_assume(N >= 1 && N <= 32);
  const char **t = malloc(N * sizeof(char*)); __CPROVER_assume(t);
  g_N = N; size_t k; __CPROVER_assume(k < N); g_t = k; const char *s;
  for (size_t i = 0; i < 32; i++) if (i < N) t[i] = vx_pool + i;   /* entry i <-> verdict vx_eq[i] */
  vx_thrown = 0;
  size_t r = utils__find_str(t, N, s);
}''',
    props=['C17'], replace=['vx_str_equal_abs'], unwind=34,
)

from vx.lower import Bound, S as _S
char_names__name = Fn(
    name='utils__char_names__name', scope=[r'class\s+char_names\b'],
    header=r'constexpr\s+const char\*\s+name\(char c\)\s*const',
    csig='const char* utils__char_names__name(const struct utils__char_names* self, char c)',
    rules=[_S(r'(?<![\w.>])arr\b', 'self->arr', name='R4:members'), Bound(r'self->arr', ['256']), _S(r'\bchar_to_idx\(', 'utils__char_to_idx(', min=0, name='R2:same-namespace call')],
    contract=r"""
__CPROVER_requires(__CPROVER_r_ok(self, sizeof(*self)))
__CPROVER_assigns()
/* the printable name of a byte is looked up by its UNSIGNED value: any byte, also >= 0x80, stays inside the 256-entry table (C06) */
__CPROVER_ensures(__CPROVER_return_value == &self->arr[(size_t)(unsigned char)c][0])
""",
    harness='void h_utils__char_names__name(void) { struct utils__char_names n; char c; utils__char_names__name(&n, c); }',
    props=['C06', 'C16'],
)

POST = r'''
'''

UNIT = Unit('utils', PRELUDE + r'''
/* abstract stand-in for str_equal used only inside find_str's proof: the verdict for table entry i
   is the arbitrary but fixed boolean vx_eq[i] (str_equal itself is under contract above) */
bool vx_eq[64]; size_t vx_eq_calls; char vx_pool[64];
bool vx_str_equal_abs(const char* a, const char* b)
__CPROVER_requires(__CPROVER_same_object(a, vx_pool) && __CPROVER_POINTER_OFFSET(a) < 64)
__CPROVER_ensures(__CPROVER_return_value == vx_eq[__CPROVER_POINTER_OFFSET(a)])
__CPROVER_assigns();
''', [char_to_idx, idx_to_char, is_printable, is_hex_digit, is_dec_digit, str_equal, find_char, str_len, find_str, char_names__name],
    consts=[('uninitialized', r'constexpr\s+size_t\s+uninitialized\s*=\s*([^;]+);', None),
            ('uninitialized16', r'constexpr\s+size16_t\s+uninitialized16\s*=\s*([^;]+);', None),
            ('uninitialized32', r'constexpr\s+size32_t\s+uninitialized32\s*=\s*([^;]+);', None)],
    post=POST)

UNIT.facts = [r'char arr\[meta::distinct_chars_count\]\[name_size\] = \{\};', r'const static size_t name_size = 5;', r'constexpr size_t distinct_chars_count = distinct_values_count<char>;']

