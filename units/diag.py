"""unit diag: parser::write_state_diag_str / write_situation_diag_str / the RULES loop of write_diag_str (C11), text lowered to ghost events (R10)."""
import os, sys, re
sys.path.insert(0, os.path.dirname(os.path.abspath(__file__)))
from vx.core import Fn, Unit, apply_spec
from vx.lower import S, Call, Bound, Emit
import pcommon as PC
import stdex as SX

HERE = os.path.dirname(os.path.abspath(__file__))
PARSER = PC.PARSER
EMIT = Emit(r's', [(r'(.+)', '(unsigned long)({0})')], min=0)
BOUNDS = [Bound(r'gi\.rule_infos', ['rule_count']), Bound(r'gi\.right_sides', ['rule_count', 'max_rule_element_count']), Bound(r'parse_table', ['state_count_cap', 'symbol_count']),
          Bound(r'term_names', ['term_count']), Bound(r'nterm_names', ['nterm_count']), Bound(r'states', ['state_count_cap'])]
COMMON = [EMIT, S(r'const auto& entry = ([^;]*);', r'const struct parse_table_entry* entry = &(\1);', min=0, name='R5:entry'), S(r'\bentry\.', 'entry->', min=0),
          S(r'const rule_info& ri = ([^;]*);', r'const struct rule_info* ri = &(\1);', min=0, name='R5:ri'), S(r'\bri\.', 'ri->', min=0),
          S(r'const situation_info info = ', 'const struct situation_info info = ', min=0),
          Call(r'(?<![\w.>])(states\[[^\]]*\])\.test', lambda m, p: 'cbitset_test(&%s, %s)' % (m.group(1), p[0]), min=0, name='R4:cbitset.test'),
          S(r'write_(rule|situation|state)_diag_str\(s,\s*', r'write_\1_diag_str(', min=0, name='R10:stream-arg')]
fns = []


def F(name, header, csig, rules=(), scope=PARSER, **kw):
    f = Fn(name=name, header=header, csig=csig, scope=scope, rules=list(rules) + COMMON + BOUNDS, between_ok=r'\s*', **kw)
    fns.append(f)


F('is_shift', r'constexpr\s+static\s+bool\s+is_shift\(parse_table_entry_kind kind\)', 'bool is_shift(uint8_t kind)')
F('make_situation_info', r'constexpr\s+static\s+situation_info\s+make_situation_info\(size32_t idx\)', 'struct situation_info make_situation_info(size32_t idx)',
  rules=[S(r'\bsituation_info\{', '(struct situation_info){', name='R16')])
F('get_symbol_name', r'constexpr\s+const char\*\s+get_symbol_name\(const symbol& s\)\s*const', 'const char* get_symbol_name(struct symbol s)')
F('write_situation_diag_str', r'constexpr\s+void\s+write_situation_diag_str\(Stream& s,\s*\w+ idx\)\s*const', 'void write_situation_diag_str(vx_wsd_idx_t idx)')   # parameter type from the real declaration (R16)
F('write_state_diag_str', r'constexpr\s+void\s+write_state_diag_str\(Stream& s,\s*size16_t idx\)\s*const', 'void write_state_diag_str(size16_t idx)',
  rules=[Call(r'write_situation_diag_str', lambda m, p: 'write_situation_diag_str(%s, VX_ARG_FITS(vx_wsd_idx_t, %s))' % (p[0], p[1]), name='R5:argument converted to the parameter type of the real declaration without loss')])


def rules_loop(body):
    m = re.search(r'for \(size16_t i = 0; i < rule_count; \+\+i\)\s*\{[^}]*\}', body)
    if not m:
        raise Exception('write_diag_str: RULES loop not found')
    return '{' + m.group(0) + '}'


F('write_rule_diag_str', r'constexpr\s+void\s+write_rule_diag_str\(Stream& s,\s*size16_t rule_info_idx\)\s*const', 'void write_rule_diag_str(size16_t rule_info_idx)',
  rules=[S(r'if constexpr \((max_rule_element_count[^)]*)\)', r'if (\1)', name='R17')])
F('write_diag_str__rules', r'constexpr\s+void\s+write_diag_str\(Stream& s\)\s*const', 'void write_diag_str__rules(void)', fragment=rules_loop)

PRELUDE = PC.types(4, 8, 4, 2, 4, 3) + r'''
int vx_thrown;
/* an argument reaches the callee unchanged by the implicit conversion to the parameter's declared type */
#define VX_ARG_FITS(T, e) (__CPROVER_assert(sizeof(T) >= sizeof(e) && (size_t)(T)(e) == (size_t)(e), "call/argument: the parameter type of write_situation_diag_str holds every item index its caller iterates over (32-bit loop variable over situation_address_space_size; no narrowing)"), (e))
''' + SX.cbitset_struct() + r'''
struct parse_table_entry parse_table[PH_STATES][PH_SYMS];
struct grammar_info gi;
struct cbitset states[PH_STATES];          /* parser::states (simple_state_table) */
size16_t state_count;
const char* term_names[PH_TERMS]; const char* nterm_names[PH_NTERMS];
@@EV_ENUM@@
unsigned vx_ev_n; int vx_ev_kind; unsigned long vx_ev_a0, vx_ev_a1, vx_ev_a2;
unsigned long vx_ev_seq;   /* ghost: running event number (assumed < 2^60) */
void vx_emit(int kind, unsigned long a0, unsigned long a1, unsigned long a2) { if (vx_ev_n < 100000) vx_ev_n++; __CPROVER_assume(vx_ev_seq < (1UL << 60)); vx_ev_seq++; vx_ev_kind = kind; vx_ev_a0 = a0; vx_ev_a1 = a1; vx_ev_a2 = a2; }
size_t g_c;
''' + open(os.path.join(HERE, '..', 'contracts', 'diag.pre.h')).read()

CB = SX.make_cbitset()
for f in CB:
    f.harness, f.props = None, []
UNIT = Unit('diag', PRELUDE, CB + fns, consts=PC.UNINIT + PC.CONSTS)
UNIT.const_rules = PC.CONST_RULES
UNIT.enums = PC.ENUMS
UNIT.facts = PC.FACTS + SX.CB_FACTS
UNIT.typedefs = PC.RT_TYPEDEFS + [('vx_wsd_idx_t', r'constexpr\s+void\s+write_situation_diag_str\(Stream& s,\s*(\w+) idx\)\s*const', None)]
apply_spec(UNIT.fns, os.path.join(HERE, '..', 'contracts', 'diag.spec'))
