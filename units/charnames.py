"""unit charnames: utils::char_names -- the constructor that builds the printable names of all 256 bytes and name(c)
(C17 / C01: names are ids of char terms, looked up by find_str; C09 / C11 / C16: names printed in messages and dumps)."""
import os, sys
sys.path.insert(0, os.path.dirname(os.path.abspath(__file__)))
from vx.core import Fn, Unit
from vx.lower import S as _S, Bound

PRELUDE = r'''
int vx_thrown;
struct utils__char_names { char arr[256][5]; };   /* char arr[meta::distinct_chars_count][name_size] */
static inline size_t vx_idx(size_t i, size_t n) { __CPROVER_assert(i < n, "VX_BOUND subscript within the declared (logical) dimension"); return i; }
#define VX_HEXDIGIT(v) ((char)((v) < 10 ? '0' + (v) : 'A' + ((v) - 10)))
size_t g_k;
'''
idx_to_char = Fn(name='utils__idx_to_char', header=r'constexpr\s+char\s+idx_to_char\s*\(\s*size_t idx\s*\)', csig='char utils__idx_to_char(size_t idx)',
                 contract='__CPROVER_assigns()\n__CPROVER_ensures((idx < 256) ==> (size_t)(unsigned char)__CPROVER_return_value == idx)',
                 harness='void h_utils__idx_to_char(void) { size_t i; utils__idx_to_char(i); }', props=['C09', 'C04', 'C03', 'C06', 'C11'])
# the byte <-> column mapping of every automaton (lexer construction and matching): all 256 byte values are distinct columns
char_to_idx = Fn(name='utils__char_to_idx', header=r'constexpr\s+size_t\s+char_to_idx\s*\(\s*char c\s*\)', csig='size_t utils__char_to_idx(char c)',
                 contract='__CPROVER_assigns()\n__CPROVER_ensures(__CPROVER_return_value < 256 && __CPROVER_return_value == (size_t)(unsigned char)c)',
                 harness='void h_utils__char_to_idx(void) { char c; utils__char_to_idx(c); }', props=['C09', 'C04', 'C03', 'C06', 'C11'])
char_names__ctor = Fn(
    name='utils__char_names__ctor', scope=[r'class\s+char_names\b'],
    header=r'constexpr\s+char_names\(\)',
    csig='void utils__char_names__ctor(struct utils__char_names* self)',
    rules=[_S(r'(?<![\w.>])arr\b', 'self->arr', name='R4:members'), Bound(r'self->arr', ['256', '5']), _S(r'\bidx_to_char\(', 'utils__idx_to_char(', name='R2:same-namespace call'),
           _S(r'meta::distinct_chars_count', '256', name='R9:distinct_chars_count'), _S(r'char d\[\] = \{', 'const char d[16] = {', name='R16:array size made explicit')],
    contract=r"""
__CPROVER_requires(__CPROVER_w_ok(self, sizeof(*self)) && g_k < 256)
__CPROVER_assigns(*self)
/* the name of a byte: the character itself when it is printable (33..126), otherwise \xHH with HH its value in upper-case hex, high digit first */
__CPROVER_ensures((g_k > 32 && g_k < 127) ==> (self->arr[g_k][0] == (char)g_k && self->arr[g_k][1] == 0))
__CPROVER_ensures(!(g_k > 32 && g_k < 127) ==> (self->arr[g_k][0] == 92 && self->arr[g_k][1] == 'x' && self->arr[g_k][2] == VX_HEXDIGIT(g_k / 16) && self->arr[g_k][3] == VX_HEXDIGIT(g_k % 16) && self->arr[g_k][4] == 0))
""",
    loops={0: r"""
__CPROVER_assigns(i, *self)
__CPROVER_loop_invariant(i <= 256 && (g_k < i ==> ((g_k > 32 && g_k < 127) ? (self->arr[g_k][0] == (char)g_k && self->arr[g_k][1] == 0)
     : (self->arr[g_k][0] == 92 && self->arr[g_k][1] == 'x' && self->arr[g_k][2] == VX_HEXDIGIT(g_k / 16) && self->arr[g_k][3] == VX_HEXDIGIT(g_k % 16) && self->arr[g_k][4] == 0))))
__CPROVER_decreases(256 - i)
"""},
    harness='void h_utils__char_names__ctor(void) { struct utils__char_names n; size_t k; g_k = k; utils__char_names__ctor(&n); }',
    props=['C17', 'C01', 'C09', 'C16', 'C11'],
)


UNIT = Unit('charnames', PRELUDE, [idx_to_char, char_to_idx, char_names__ctor])
UNIT.facts = [r'char arr\[meta::distinct_chars_count\]\[name_size\] = \{\};', r'const static size_t name_size = 5;', r'constexpr size_t distinct_chars_count = distinct_values_count<char>;']

from vx import native as _N


def _twin_names(o):
    return _N.TWIN_HEAD + r"""#include <cstring>
int main() {
    int bad = 0;
    for (int v = 0; v < 256; ++v) {
        char want[5]; const char* d = "0123456789ABCDEF";
        if (v > 32 && v < 127) { want[0] = char(v); want[1] = 0; } else { want[0] = '\\'; want[1] = 'x'; want[2] = d[v / 16]; want[3] = d[v % 16]; want[4] = 0; }
        const char* got = utils::c_names.name(char(v));
        if (std::strcmp(got, want)) { if (bad < 5) std::printf("name of byte %d is '%s', documented '%s'\n", v, got, want); ++bad; }
    }
    return bad ? 1 : 0;
}"""


char_names__ctor.twin = _twin_names
