"""unit glue: how class parser fills grammar_info and the name tables from the DSL objects: symbol constructors, analyze_eof,
analyze_error_recovery_token, analyze_term<TermIdx>, analyze_nterm (both), make_symbol (both), analyze_rule<Nr>.
R9: TermIdx / Nr / sizeof...(R) are ghost parameters; R21: the one pack expansion in analyze_rule,
(void(gi.right_sides[Nr][I] = make_symbol(std::get<I>(r.get_r()))), ...), is the loop over I it abbreviates; the DSL objects are
abstract (struct vx_Term / vx_nterm / vx_rule: what their accessors return -- those accessors are under contract in units terms,
rules, values); utils::find_str is abstract here (under contract in unit utils)."""
import os, sys, re
sys.path.insert(0, os.path.dirname(os.path.abspath(__file__)))
from vx.core import Fn, Unit, apply_spec, load_spec
from vx.lower import S, Call, Bound
import pcommon as PC

HERE = os.path.dirname(os.path.abspath(__file__))
PARSER = PC.PARSER
fns = []
BOUNDS = [Bound(r'gi\.rule_infos', ['rule_count']), Bound(r'gi\.right_sides', ['rule_count', 'max_rule_element_count']),
          Bound(r'gi\.term_precedences', ['term_count']), Bound(r'gi\.term_associativities', ['term_count']),
          Bound(r'gi\.rule_precedences', ['rule_count']), Bound(r'gi\.rule_associativities', ['rule_count']), Bound(r'gi\.rule_last_terms', ['rule_count']),
          Bound(r'term_names', ['term_count']), Bound(r'term_ids', ['term_count']), Bound(r'term_ftors', ['term_count']), Bound(r'nterm_names', ['nterm_count'])]
ACC = [S(r'\bt\.(get_\w+)\(\)', r'vx_Term__\1(t)', min=0, name='R4:t.get_x()'), S(r'\bnt\.get_name\(\)', 'vx_nterm__get_name(nt)', min=0, name='R4:nt.get_name()'),
       S(r'\br\.get_l\(\)\.get_name\(\)', 'vx_rule__l_name(r)', min=0, name='R4:r.get_l().get_name()'), S(r'\br\.get_precedence\(\)', 'vx_rule__get_precedence(r)', min=0, name='R4:r.get_precedence()'),
       S(r'utils::find_str\(', 'vx_find_str(', min=0, name='R2:find_str (abstract)'),
       S(r'\bsymbol\{', '(struct symbol){', min=0, name='R16:symbol{..}'),
       S(r'detail::eof::get_name\(\)', 'detail__eof__get_name()', min=0), S(r'(?<![\w:])error_recovery_token::get_name\(\)', 'error_recovery_token__get_name()', min=0),
       S(r'detail::fake_root<ValueType>::get_name\(\)', 'detail__fake_root__get_name()', min=0)]


def F(name, header, csig, rules=(), scope=PARSER, **kw):
    f = Fn(name=name, header=header, csig=csig, scope=scope, rules=list(rules) + ACC + BOUNDS, between_ok=kw.pop('between_ok', r'\s*'), **kw)
    fns.append(f)
    return f


MEMB = Call(r'VX_INIT__(\w+)', 'self->{m1} = ({args})', name='R19:member initializer m(e)')
SYM = PARSER + [r'struct\s+symbol\s*(?=\{)']
F('symbol__ctor0', r'constexpr symbol\(\)', 'void symbol__ctor0(struct symbol* self)', [MEMB], SYM, ctor=True)
F('symbol__ctor2', r'constexpr symbol\(bool term, size16_t idx\)', 'void symbol__ctor2(struct symbol* self, bool term, size16_t idx)', [MEMB], SYM, ctor=True)
F('detail__eof__get_name', r'constexpr static const char\* get_name\(\)', 'const char* detail__eof__get_name(void)', scope=[r'struct\s+eof\s*(?=\{)'])
F('error_recovery_token__get_name', r'constexpr static const char\* get_name\(\)', 'const char* error_recovery_token__get_name(void)', scope=[r'struct\s+error_recovery_token\s*(?=\{)'])
F('error_recovery_token__get_id', r'constexpr static const char\* get_id\(\)', 'const char* error_recovery_token__get_id(void)', [S(r'\bget_name\(\)', 'error_recovery_token__get_name()')], scope=[r'struct\s+error_recovery_token\s*(?=\{)'])
F('detail__fake_root__get_name', r'constexpr static const char\* get_name\(\)', 'const char* detail__fake_root__get_name(void)', scope=[r'struct\s+fake_root\s*(?=\{)'])
F('analyze_eof', r'constexpr void analyze_eof\(\)', 'void analyze_eof(void)')
F('analyze_error_recovery_token', r'constexpr void analyze_error_recovery_token\(\)', 'void analyze_error_recovery_token(void)')
F('analyze_term', r'constexpr void analyze_term\(const Term& t\)', 'void analyze_term(size16_t TermIdx, const struct vx_Term* t)',
  [S(r'string_view_to_term_value<TermIdx>', 'vx_term_ftor(TermIdx)', name='R13:function template instance -> ghost id')])
F('analyze_nterm', r'constexpr void analyze_nterm\(const nterm<ValueType>& nt, size16_t idx\)', 'void analyze_nterm(const struct vx_nterm* nt, size16_t idx)')
F('analyze_nterm_fake_root', r'constexpr void analyze_nterm\(detail::fake_root<ValueType>\)', 'void analyze_nterm_fake_root(void)')
F('make_symbol_term', r'constexpr auto make_symbol\(const Term& t\)', 'struct symbol make_symbol_term(const struct vx_Term* t)', between_ok=r'\s*const\s*')
F('make_symbol_nterm', r'constexpr auto make_symbol\(const nterm<ValueType>& nt\)', 'struct symbol make_symbol_nterm(const struct vx_nterm* nt)', between_ok=r'\s*const\s*')
F('analyze_rule', r'constexpr void analyze_rule\(const detail::rule<RequiresContext, F, L, R\.\.\.>& r, std::index_sequence<I\.\.\.>\)',
  'void analyze_rule(size16_t Nr, const struct vx_rule* r)',
  [S(r'\(void\((gi\.right_sides\[Nr\]\[I\] = make_symbol\(std::get<I>\(r\.get_r\(\)\)\))\), \.\.\.\);',
     r'for (size_t I = 0; I < P_N; ++I) VX_PACK_LOOP { gi.right_sides[Nr][I] = vx_make_symbol_item(r, I); }', name='R21:pack expansion over I -> loop'),
   S(r'sizeof\.\.\.\(R\)', 'P_N', name='R9:sizeof...(R)'),
   S(r'gi\.rule_infos\[Nr\] = \{', 'gi.rule_infos[Nr] = (struct rule_info){', name='R16:braced assignment')])

F('string_view_to_term_value', r'constexpr static value_variant_type string_view_to_term_value\(const term_tuple_type& term_tuple, const std::string_view& sv, source_point sp\)',
  'struct vx_tv string_view_to_term_value(size16_t TermIdx, const struct vx_terms* term_tuple, const struct vx_sv* sv, struct source_point sp)',
  [S(r'const auto &t = std::get<TermIdx>\(term_tuple\);', 'const struct vx_Term* t = vx_get_term(term_tuple, TermIdx);', name='R13:std::get<TermIdx>(term_tuple)'),
   S(r'using term_value_type = value_type_t<std::tuple_element_t<TermIdx, term_tuple_type>>;', '', name='R1:alias'),
   Call(r'return value_variant_type', 'return ({args})', name='R13:variant construction'), Call(r'\bterm_value_type', 'vx_mk_term_value({args})', name='R13:term_value<VT>(v, sp)'),
   S(r'\bt\.get_ftor\(\)\(sv\)', 'vx_apply_ftor(vx_Term__get_ftor(t), sv)', name='R13:functor call')])

def root_rule_fragment(body):
    """the call that files the augmented rule `## <- root`: its length is the length of the index_sequence it is given"""
    m = re.search(r'analyze_rule<root_rule_idx>\(detail::fake_root<value_type_t<root_nterm_type>>\{\}\(root\), std::index_sequence<([\d,\s]+)>\{\}\);', body)
    if not m:
        raise Exception('analyze_rules: the call for the augmented rule was not found')
    n = len([x for x in m.group(1).split(',') if x.strip()])
    return ('{ size_t vx_n = %d; __CPROVER_assert(vx_n <= max_rule_element_count, "glue/root-rule: the augmented rule ## <- root fits the row length of the rule tables (C12: tables sized from the grammar)");'
            ' __CPROVER_assert(root_rule_idx < rule_count, "glue/root-rule: the augmented rule has a row"); }' % n)


F('vx_root_rule_fits', r'constexpr void analyze_rules\(std::index_sequence<I\.\.\.>, const root_nterm_type& root\)', 'void vx_root_rule_fits(void)', fragment=root_rule_fragment)

# R21: the two pack expansions that call analyze_term / analyze_nterm once per tuple element, left to right
F('analyze_terms', r'constexpr void analyze_terms\(std::index_sequence<I\.\.\.>\)', 'void analyze_terms(void)',
  [S(r'\(void\(analyze_term<I>\(std::get<I>\(term_tuple\)\)\), \.\.\.\);', 'for (size_t I = 0; I < P_TERMS; ++I) VX_TERMS_LOOP { analyze_term((size16_t)I, vx_get_term(&term_tuple, I)); }', name='R21:pack expansion over I -> loop')])
F('analyze_nterms', r'constexpr void analyze_nterms\(std::index_sequence<I\.\.\.>\)', 'void analyze_nterms(void)',
  [S(r'\(void\(analyze_nterm\(std::get<I>\(nterm_tuple\), I\)\), \.\.\.\);', 'for (size_t I = 0; I < P_NTERMS; ++I) VX_NTERMS_LOOP { analyze_nterm(vx_get_nterm(&nterm_tuple, I), (size16_t)I); }', name='R21:pack expansion over I -> loop')])

# the order in which the constructor and analyze_rules run their steps (each step is under contract on its own; here: abstract, ordered)
F('analyze_rules', r'constexpr void analyze_rules\(std::index_sequence<I\.\.\.>, const root_nterm_type& root\)', 'void analyze_rules(void)',
  [S(r'\(void\(analyze_rule<I>\(std::get<I>\(rule_tuple\), std::make_index_sequence<Rules::n>\{\}\)\), \.\.\.\);',
     'for (size_t I = 0; I < P_RULES; ++I) VX_RULES_LOOP { vx_step_analyze_rule(I); }', name='R21:pack expansion over I -> loop'),
   S(r'analyze_rule<root_rule_idx>\(detail::fake_root<value_type_t<root_nterm_type>>\{\}\(root\), std::index_sequence<0>\{\}\);', 'vx_step_analyze_rule(root_rule_idx);', name='abstract step: analyze_rule<root_rule_idx>'),
   S(r'stdex::sort\(gi\.rule_infos, \[\]\(const auto& ri1, const auto& ri2\) \{[^{}]*\}\);', 'vx_step(VX_S_SORT);', name='abstract step: sort rule_infos (the comparator is fragment vx_rule_order)'),
   S(r'make_nterm_rule_slices\(\);', 'vx_step(VX_S_SLICES);', name='abstract step: make_nterm_rule_slices')])
SORT_CMP = r'stdex::sort\(gi\.rule_infos, \[\]\(const auto& ri1, const auto& ri2\) (\{[^{}]*\})\);'


def sort_cmp_fragment(body):
    m = re.search(SORT_CMP, body)
    if not m:
        raise Exception('analyze_rules: the comparator lambda of stdex::sort(gi.rule_infos, ...) not found')
    return m.group(1)


# the order stdex::sort (a stable sort, under contract in unit state_analyzer for any strict weak order) is asked to establish
F('vx_rule_order', r'constexpr void analyze_rules\(std::index_sequence<I\.\.\.>, const root_nterm_type& root\)', 'bool vx_rule_order(const struct rule_info* ri1, const struct rule_info* ri2)',
  [S(r'\bri([12])\.', r'ri\1->', min=0, name='R5:ri1/ri2')], fragment=sort_cmp_fragment)
CTOR_STEPS = [S(r'auto seq_for_terms = std::make_index_sequence<std::tuple_size_v<term_tuple_type>>\{\};', '', name='R18:index_sequence object'),
              S(r'analyze_nterms\(std::make_index_sequence<std::tuple_size_v<nterm_tuple_type>>\{\}\);', 'vx_step(VX_S_NTERMS);', name='abstract step'),
              S(r'analyze_nterm\(detail::fake_root<value_type_t<root_nterm_type>>\{\}\);', 'vx_step(VX_S_FAKE_ROOT);', name='abstract step'),
              S(r'analyze_terms\(seq_for_terms\);', 'vx_step(VX_S_TERMS);', name='abstract step'), S(r'analyze_eof\(\);', 'vx_step(VX_S_EOF);', name='abstract step'),
              S(r'analyze_error_recovery_token\(\);', 'vx_step(VX_S_ERR);', name='abstract step'),
              S(r'analyze_rules\(std::make_index_sequence<std::tuple_size_v<rule_tuple_type>>\{\}, grammar_root\);', 'vx_step(VX_S_RULES);', name='abstract step'),
              S(r'state_analyzer sa\(gi, states, parse_table\);\s*state_count = sa\.analyze_states\(\);', 'vx_step(VX_S_STATES);', name='abstract step'),
              S(r'create_lexer\(seq_for_terms\);', 'vx_step(VX_S_LEXER);', name='abstract step'),
              Call(r'VX_INIT__(\w+)', 'vx_store_{m1}()', name='R19:member initializer (tuples stored)')]
F('parser__ctor', r'constexpr parser\(\s*root_nterm_type grammar_root,\s*term_tuple_type terms,\s*nterm_tuple_type nterms,\s*rule_tuple_type&& rules\)', 'void parser__ctor(void)', CTOR_STEPS, ctor=True)

F('create_lexer', r'constexpr void create_lexer\(std::index_sequence<I\.\.\.>\)', 'void create_lexer(void)',
  [S(r'if constexpr \(generate_lexer\)', 'if (VX_GENERATE_LEXER)', name='R17:if constexpr on generate_lexer'),
   S(r'regex::dfa_builder<lexer_dfa_size> b\(lexer_sm\);', 'vx_builder_on(VX_LEXER_SM);', name='R3:the one builder, on lexer_sm'),
   S(r'\(void\(regex::add_term_data_to_dfa\(std::get<I>\(term_tuple\)\.get_data\(\), b, size16_t\(I\)\)\), \.\.\.\);',
     'for (size_t I = 0; I < P_TERMS; ++I) VX_LEXER_LOOP { vx_add_term_data(vx_get_term(&term_tuple, I), (size16_t)(I)); }', name='R21:pack expansion over I -> loop')])

# the contracts of calculate_rule_* are the ones they are proved against in unit state_analyzer (same text, read from that spec)
_sa = load_spec(os.path.join(HERE, '..', 'contracts', 'state_analyzer.spec'))
CALC = ''.join('%s\n%s;\n' % (sig, _sa[n]['contract'].strip()) for n, sig in (
    ('calculate_rule_last_term', 'size16_t calculate_rule_last_term(size16_t rule_idx, size16_t rule_size)'),
    ('calculate_rule_precedence', 'int calculate_rule_precedence(int precedence, size16_t rule_idx)'),
    ('calculate_rule_associativity', 'int calculate_rule_associativity(size16_t rule_idx)')))

PRELUDE = PC.types(2, 8, 4, 3, 4, 3) + r'''
int vx_thrown;
struct grammar_info gi;
const char* term_names[PH_TERMS]; const char* term_ids[PH_TERMS]; const char* nterm_names[PH_NTERMS]; const void* term_ftors[PH_TERMS];
size_t P_N;                                     /* ghost: sizeof...(R), the length of the rule being analysed */
''' + open(os.path.join(HERE, '..', 'contracts', 'glue.pre.h')).read() + CALC
UNIT = Unit('glue', PRELUDE, fns, consts=PC.UNINIT + PC.CONSTS)
UNIT.const_rules = PC.CONST_RULES
UNIT.enums = PC.ENUMS
UNIT.facts = PC.FACTS + [r'analyze_terms\(seq_for_terms\);', r'auto seq_for_terms = std::make_index_sequence<std::tuple_size_v<term_tuple_type>>\{\};', r'analyze_nterms\(std::make_index_sequence<std::tuple_size_v<nterm_tuple_type>>\{\}\);',
                         r'str_table<term_count> term_ids = \{\};', r'str_table<term_count> term_names = \{\};', r'str_table<nterm_count> nterm_names = \{\};',
                         r'string_view_to_term_value_t term_ftors\[term_count\] = \{\};']
UNIT.typedefs = PC.RT_TYPEDEFS
apply_spec(UNIT.fns, os.path.join(HERE, '..', 'contracts', 'glue.spec'))

from vx import native as _N


def _twin_root_rule(o):
    return """// vx-witness: mode=compile-fails
// native replay: a grammar whose user rules are all empty must still build at compile time (the augmented rule ## <- root has one element)
#include <ctpg/ctpg.hpp>
using namespace ctpg;
constexpr nterm<int> root("root");
constexpr parser p(root, terms('x'), nterms(root), rules(root() >= []() { return 0; }));
int main() { return 0; }
"""


UNIT.fn('vx_root_rule_fits').twin = _twin_root_rule
