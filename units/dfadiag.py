"""unit dfadiag: regex::write_dfa_state_diag_str / write_dfa_diag_str (C11: the DFA part of the diagnostic dump shows the automaton
that was built).  R10: text -> events; R14: the lambda f_range -> a static function (its capture is the stream); the local
stdex::cvector<char, 256> tmp -> struct cvc (push_back / clear / size / front / back / iteration by their one-line meanings,
which are under contract in units stdex and cvec_iter)."""
import os, sys, re
sys.path.insert(0, os.path.dirname(os.path.abspath(__file__)))
from vx.core import Fn, Unit, apply_spec
from vx.lower import S, Call, Emit, RangeFor, Bound
import pcommon as PC

HERE = os.path.dirname(os.path.abspath(__file__))
fns = []
EMIT = Emit(r's', [(r'utils::c_names\.name\((.*)\)', '(unsigned long)(unsigned char)({0})'), (r'term_names\[(.*)\]', '(unsigned long)vx_name({0})'), (r'(.+)', '(unsigned long)({0})')], min=0)
LAMBDA = r'auto f_range = \[&s\]\(const auto& r, size16_t state_idx\)\s*(\{.*?\n\s*\});'


def f_range_fragment(body):
    m = re.search(LAMBDA, body, re.S)
    if not m:
        raise Exception('write_dfa_state_diag_str: lambda f_range not found')
    return m.group(1)


def F(name, header, csig, rules=(), **kw):
    fns.append(Fn(name=name, header=header, csig=csig, scope=None, rules=list(rules), between_ok=r'\s*', **kw))


HDR = r'constexpr void write_dfa_state_diag_str\(const dfa_state<N>& st, Stream& s, size16_t idx, const StrTable& term_names\)'
F('utils__idx_to_char', r'constexpr\s+char\s+idx_to_char\s*\(\s*size_t idx\s*\)', 'char utils__idx_to_char(size_t idx)')
F('vx_f_range', HDR, 'void vx_f_range(const struct cvc* r, size16_t state_idx)', fragment=f_range_fragment,
  rules=[RangeFor([(r'r', 'r->current_size', 'r->the_data[vx_idx({i}, r->current_size)]', 'char', False)]), EMIT,
         S(r'\br\.size\(\)', 'r->current_size', name='R4:size()'), S(r'\br\.front\(\)', 'r->the_data[vx_idx(0, r->current_size)]', min=0, name='R4:front()'),
         S(r'\br\.back\(\)', 'r->the_data[vx_idx(r->current_size - 1, r->current_size)]', min=0, name='R4:back()')])
F('regex__write_dfa_state_diag_str', HDR, 'void regex__write_dfa_state_diag_str(const struct dfa_state* st, size16_t idx)',
  rules=[S(LAMBDA, '', flags=re.S, name='R14:lambda f_range'), EMIT, S(r'\bf_range\(tmp,', 'vx_f_range(&tmp,', min=1, name='R14:f_range call'),
         S(r'stdex::cvector<char, transitions_size> tmp;', 'struct cvc tmp; tmp.current_size = 0; tmp.N = 256;', name='R16:cvector default construction (N = transitions_size)'),
         Call(r'\btmp\.push_back', 'cvc_push_back(&tmp, {args})', min=2, name='R4:push_back'), S(r'\btmp\.clear\(\);', 'tmp.current_size = 0;', name='R4:clear()'),
         S(r'\bst\.', 'st->', name='R5:const dfa_state& st'), S(r'\btransitions_size\b', '256', name='R9:transitions_size'),
         S(r'utils::idx_to_char\(', 'utils__idx_to_char(', min=2), Bound(r'st->conflicted_recognition', ['4']), Bound(r'st->transitions', ['256'])])
F('regex__write_dfa_diag_str', r'constexpr void write_dfa_diag_str\(const dfa<N>& sm, Stream& stream, const StrTable& term_names\)', 'void regex__write_dfa_diag_str(const struct dfa* sm)',
  rules=[S(r'\bsm\.size\(\)', 'sm->current_size', name='R4:size()'), S(r'write_dfa_state_diag_str\(sm\[i\], stream, i, term_names\)', 'regex__write_dfa_state_diag_str(&sm->the_data[vx_idx(i, sm->current_size)], i)', name='R4/R10')])

PRELUDE = r'''
int vx_thrown;
static inline size_t vx_idx(size_t i, size_t n) { __CPROVER_assert(i < n, "VX_BOUND subscript within the declared (logical) dimension"); return i; }
#define PH_DFA 4
struct cbitset_N { uint64_t data[1]; };
struct dfa_state { size8_t start_state; size8_t end_state; size8_t unreachable; size16_t conflicted_recognition[4]; size16_t transitions[256]; struct cbitset_N merged_from; };
struct dfa { size_t current_size; size_t N; struct dfa_state the_data[PH_DFA]; };
struct cvc { size_t current_size; size_t N; char the_data[256]; };     /* stdex::cvector<char, 256> */
static inline void cvc_push_back(struct cvc* v, char c) { __CPROVER_assert(v->current_size < v->N, "cvector::push_back: size < N"); v->the_data[v->current_size++] = c; }
static inline const char* vx_name(size_t i) { return (const char*)0 + i; }       /* term_names[i]: identified by its index */
@@EV_ENUM@@
unsigned vx_ev_n; int vx_ev_kind, vx_ev0_kind; unsigned long vx_ev_a0, vx_ev0_a0;
void vx_emit(int kind, unsigned long a0, unsigned long a1, unsigned long a2) { if (vx_ev_n == 0) { vx_ev0_kind = kind; vx_ev0_a0 = a0; } if (vx_ev_n < 100000) vx_ev_n++; vx_ev_kind = kind; vx_ev_a0 = a0; }
size_t g_c; unsigned g_hit; size16_t g_hit_target;      /* ghost-chosen byte; how many printed ranges cover it; the target printed for it */
unsigned g_st_calls; size16_t g_st_last;                 /* ghost record of the per-state writer */
#define VX_UC(c) ((size_t)(unsigned char)(c))
''' + open(os.path.join(HERE, '..', 'contracts', 'dfadiag.pre.h')).read()
UNIT = Unit('dfadiag', PRELUDE, fns, consts=PC.UNINIT)
UNIT.facts = [r'static const size_t transitions_size = meta::distinct_values_count<char>;', r'using conflicted_terms = size16_t\[4\];']
apply_spec(UNIT.fns, os.path.join(HERE, '..', 'contracts', 'dfadiag.spec'))
# the per-state writer does not get through CBMC's symbolic execution (not even to the solver) in 15 min, with a quantified or a
# quantifier-free loop invariant: its contract stays in the spec file, is NOT checked, and is therefore an *assumed* contract where
# write_dfa_diag_str uses it
UNIT.fn('regex__write_dfa_state_diag_str').harness = None

