"""unit stdex: stdex::cvector<T,N> (R4: member functions take Self*; R8: iterators are element offsets;
R9: N is a ghost field, physical capacity VX_CAP) and stdex::cbitset<N>."""
from vx.core import Fn, Unit
from vx.lower import S, Call, RangeFor

CAP = 16
CV_SCOPE = [r'class\s+cvector<T,\s*N,\s*std::enable_if_t<is_cvector_compatible<T>::value>>']

MEMBERS = S(r'(?<![\w.>])(the_data|current_size)\b', r'self->\1', name='R4:members')
# R9: every subscript of the_data is checked against the logical capacity N


class Subscript(S):
    """self->the_data[e] -> self->the_data[vx_idx(e, self->N)] (balanced brackets)"""
    def __init__(self):
        self.name = 'R9:the_data-bound'
        self.min = 0

    def apply(self, text, log):
        import re
        from vx.lower import match_close, contract_spans, in_spans
        n, pos = 0, 0
        while True:
            m = re.compile(r'self->the_data\s*\[').search(text, pos)
            if not m:
                break
            if in_spans(m.start(), contract_spans(text)):
                pos = m.end(); continue
            cl = match_close(text, m.end() - 1, '[', ']')
            inner = text[m.end():cl]
            rep = 'self->the_data[vx_idx(%s, self->N)]' % inner
            text = text[:m.start()] + rep + text[cl + 1:]
            pos = m.start() + len(rep)
            n += 1
        log.add(self.name, n)
        return text


def wf(p):
    return '(__CPROVER_w_ok(%s, sizeof(*%s)) && %s->N >= 1 && %s->N <= VX_CAP && %s->current_size <= %s->N)' % ((p,) * 6)


def frame(p, upto):
    """elements below `upto` unchanged, N unchanged"""
    return ('%s->N == __CPROVER_old(%s->N) && __CPROVER_forall { size_t vxq; (vxq < VX_CAP) ==> (vxq < (%s) ==> %s->the_data[vxq] == __CPROVER_old(*%s).the_data[vxq]) }'
            % (p, p, upto, p, p))


def make_cvector(pfx, T, extra=False):
    """Fn list for one instantiation of cvector<T,N>; names are <pfx>_<method>."""
    V = 'struct %s' % pfx
    R = [MEMBERS, Subscript(), S(r'(?<![\w.>])N\b', 'self->N', min=0, name='R9:N')]
    fns = []

    def one(method, header, csig, contract, rules=R, loops=None, harness_args='', harness_pre='', **kw):
        name = '%s_%s' % (pfx, method)
        h = 'void h_%s(void) { %s x; %s %s(&x%s); }' % (name, V, harness_pre, name, harness_args)
        fns.append(Fn(name=name, scope=CV_SCOPE, header=header, csig=csig, contract=contract, rules=list(rules), loops=loops,
                      harness=h, props=['C06', 'C02', 'C14', 'C12'], **kw))

    one('size', r'constexpr\s+size_type\s+size\(\)\s*const', 'size_t %s_size(const %s* self)' % (pfx, V),
        '__CPROVER_requires(%s)\n__CPROVER_assigns()\n__CPROVER_ensures(__CPROVER_return_value == self->current_size)' % wf('self'))
    one('empty', r'constexpr\s+bool\s+empty\(\)\s*const', 'bool %s_empty(const %s* self)' % (pfx, V),
        '__CPROVER_requires(%s)\n__CPROVER_assigns()\n__CPROVER_ensures(__CPROVER_return_value == (self->current_size == 0))' % wf('self'))
    one('data', r'constexpr\s+T\*\s+data\(\)', '%s* %s_data(%s* self)' % (T, pfx, V),
        '__CPROVER_requires(%s)\n__CPROVER_assigns()\n__CPROVER_ensures(__CPROVER_return_value == &self->the_data[0])' % wf('self'), between_ok=r'\s*')
    one('at', r'constexpr\s+T&\s+operator\[\]\(size_type idx\)', '%s* %s_at(%s* self, size_t idx)' % (T, pfx, V),
        '__CPROVER_requires(%s && idx < self->current_size)\n__CPROVER_assigns()\n__CPROVER_ensures(__CPROVER_return_value == &self->the_data[idx])' % wf('self'),
        rules=[S(r'return\s+the_data\[idx\]', 'return &the_data[idx]')] + R, harness_args=', i', harness_pre='size_t i;', between_ok=r'\s*')
    one('push_back', r'constexpr\s+void\s+push_back\(const T&\s*v\)', 'void %s_push_back(%s* self, %s v)' % (pfx, V, T),
        '__CPROVER_requires(%s && self->current_size < self->N)\n__CPROVER_assigns(*self)\n'
        '__CPROVER_ensures(self->current_size == __CPROVER_old(self->current_size) + 1 && self->current_size <= self->N && self->the_data[self->current_size - 1] == v)\n'
        '__CPROVER_ensures(self->current_size >= 1 && %s)' % (wf('self'), frame('self', 'self->current_size - 1')),
        harness_args=', v', harness_pre='%s v;' % T, between_ok=r'\s*')
    if extra:
        one('emplace_back', r'constexpr\s+void\s+emplace_back\(T&&\s*v\)', 'void %s_emplace_back(%s* self, %s v)' % (pfx, V, T),
            '__CPROVER_requires(%s && self->current_size < self->N && vx_moved_n < 1000)\n__CPROVER_assigns(*self, vx_moved_n)\n'
            '/* C14: the pushed value is move-assigned into the slot (R20: std::move(v) vs. the bare name v, which would copy) */\n__CPROVER_ensures(vx_moved_n == __CPROVER_old(vx_moved_n) + 1)\n'
            '__CPROVER_ensures(self->current_size == __CPROVER_old(self->current_size) + 1 && self->current_size <= self->N && self->the_data[self->current_size - 1] == v)\n'
            '__CPROVER_ensures(self->current_size >= 1 && %s)' % (wf('self'), frame('self', 'self->current_size - 1')),
            rules=[S(r'=\s*std::move\(v\)', '= VX_MOVED(v)', min=0, name='R20:std::move(v) keeps the rvalue category')] + R,
            harness_args=', v', harness_pre='%s v; vx_moved_n = 0;' % T, between_ok=r'\s*')
    else:
        one('emplace_back', r'constexpr\s+void\s+emplace_back\(T&&\s*v\)', 'void %s_emplace_back(%s* self, %s v)' % (pfx, V, T),
            '__CPROVER_requires(%s && self->current_size < self->N)\n__CPROVER_assigns(*self)\n'
            '__CPROVER_ensures(self->current_size == __CPROVER_old(self->current_size) + 1 && self->current_size <= self->N && self->the_data[self->current_size - 1] == v)\n'
            '__CPROVER_ensures(self->current_size >= 1 && %s)' % (wf('self'), frame('self', 'self->current_size - 1')),
            harness_args=', v', harness_pre='%s v;' % T, between_ok=r'\s*')
    # C12, second half: at compile time a push beyond the capacity is what refuses a too-small table (the evaluation is not a constant
    # expression); in this variant the woven bound check ends the path (like a throw, R11) instead of being an obligation, and the
    # contract is total: the function returns only if there was room
    for meth, hdr in () if not extra else (('push_back', r'constexpr\s+void\s+push_back\(const T&\s*v\)'), ('emplace_back', r'constexpr\s+void\s+emplace_back\(T&&\s*v\)')):
        name = '%s_%s_total' % (pfx, meth)
        fns.append(Fn(name=name, scope=CV_SCOPE, header=hdr, csig='void %s(%s* self, %s v)' % (name, V, T),
                      contract='__CPROVER_requires(%s && vx_rejected == 0 && vx_moved_n < 1000)\n__CPROVER_assigns(*self, vx_rejected, vx_moved_n)\n'
                               '/* returns normally only when there was room, and then the value is in */\n'
                               '__CPROVER_ensures(__CPROVER_old(self->current_size) < self->N && self->current_size == __CPROVER_old(self->current_size) + 1 && self->the_data[self->current_size - 1] == v && vx_rejected == 0)' % wf('self'),
                      rules=[S(r'=\s*std::move\(v\)', '= VX_MOVED(v)', min=0, name='R20:std::move(v)')] + R + [S(r'vx_idx\(', 'vx_idx_ce(', min=1, name='R9:bound check in constant evaluation: out of range ends the evaluation')],
                      harness='void h_%s(void) { %s x; %s v; vx_rejected = 0; %s(&x, v); }' % (name, V, T, name), props=['C12'], between_ok=r'\s*'))
    one('front', r'constexpr\s+T&\s+front\(\)', '%s* %s_front(%s* self)' % (T, pfx, V),
        '__CPROVER_requires(%s && self->current_size >= 1)\n__CPROVER_assigns()\n__CPROVER_ensures(__CPROVER_return_value == &self->the_data[0])' % wf('self'),
        rules=[S(r'return\s+the_data\[0\]', 'return &the_data[0]')] + R, between_ok=r'\s*')
    one('back', r'constexpr\s+T&\s+back\(\)', '%s* %s_back(%s* self)' % (T, pfx, V),
        '__CPROVER_requires(%s && self->current_size >= 1)\n__CPROVER_assigns()\n__CPROVER_ensures(__CPROVER_return_value == &self->the_data[self->current_size - 1])' % wf('self'),
        rules=[S(r'return\s+the_data\[current_size - 1\]', 'return &the_data[current_size - 1]')] + R, between_ok=r'\s*')
    one('clear', r'constexpr\s+void\s+clear\(\)', 'void %s_clear(%s* self)' % (pfx, V),
        '__CPROVER_requires(%s)\n__CPROVER_assigns(self->current_size)\n__CPROVER_ensures(self->current_size == 0)' % wf('self'), between_ok=r'\s*')
    one('pop_back', r'constexpr\s+void\s+pop_back\(\)', 'void %s_pop_back(%s* self)' % (pfx, V),
        '__CPROVER_requires(%s && self->current_size >= 1)\n__CPROVER_assigns(self->current_size)\n__CPROVER_ensures(self->current_size == __CPROVER_old(self->current_size) - 1)' % wf('self'),
        between_ok=r'\s*')
    # erase(first, last): iterators are element offsets (ptrdiff_t) from the_data (R8); any range 0 <= first <= last <= size
    D = '((size_t)(last - first))'
    one('erase', r'constexpr\s+iterator\s+erase\(iterator first,\s*iterator last\)', 'ptrdiff_t %s_erase(%s* self, ptrdiff_t first, ptrdiff_t last)' % (pfx, V),
        '__CPROVER_requires(%s && first >= 0 && first <= last && last <= (ptrdiff_t)self->current_size)\n__CPROVER_assigns(*self)\n'
        '/* the elements [first, last) are gone, the ones behind them moved down, the ones before them untouched; the result is the new end() */\n'
        '__CPROVER_ensures(self->N == __CPROVER_old(self->N) && self->current_size == __CPROVER_old(self->current_size) - %s && __CPROVER_return_value == (ptrdiff_t)self->current_size)\n'
        '__CPROVER_ensures(__CPROVER_forall { size_t vxq; (vxq < VX_CAP) ==> ((vxq < (size_t)first ==> self->the_data[vxq] == __CPROVER_old(*self).the_data[vxq])'
        ' && ((vxq >= (size_t)first && vxq < self->current_size && vxq + %s < VX_CAP) ==> self->the_data[vxq] == __CPROVER_old(*self).the_data[vxq + %s])) })' % (wf('self'), D, D, D),
        rules=[S(r'\bbegin\(\)', '((ptrdiff_t)0)', min=2), S(r'\bend\(\)', '((ptrdiff_t)self->current_size)', min=4),
               S(r'\bauto\s+(from|to)\b', r'ptrdiff_t \1', min=2), S(r'\biterator\s+it\b', 'ptrdiff_t it'),
               S(r'\*from\s*=\s*std::move\(\*it\)', 'the_data[from] = the_data[it]'),
               S(r'size_type diff = to - from', 'size_type diff = (size_type)(to - from)')] + R,
        loops={0: '__CPROVER_assigns(from, it, __CPROVER_object_whole(self))\n'
                  '__CPROVER_loop_invariant(it >= last && it <= (ptrdiff_t)self->current_size && from == first + (it - last) && first < last && self->current_size == __CPROVER_loop_entry(self->current_size) && self->N == __CPROVER_loop_entry(self->N)'
                  ' && __CPROVER_forall { size_t vxq; (vxq < VX_CAP) ==> (((vxq < (size_t)first || vxq >= (size_t)from) ==> self->the_data[vxq] == __CPROVER_loop_entry(*self).the_data[vxq])'
                  ' && ((vxq >= (size_t)first && vxq < (size_t)from && vxq + %s < VX_CAP) ==> self->the_data[vxq] == __CPROVER_loop_entry(*self).the_data[vxq + %s])) })\n'
                  '__CPROVER_decreases((ptrdiff_t)self->current_size - it)' % (D, D)},
        harness_args=', a, b', harness_pre='ptrdiff_t a, b;')
    return fns


def cvector_struct(pfx, T):
    # scalar fields first: CBMC 6.11 mis-reads a struct array member that is followed by a wider-aligned member (see DESIGN.md 8)
    return 'struct %s { size_t current_size; size_t N; /* ghost: template parameter N */ %s the_data[VX_CAP]; };\n' % (pfx, T)


CV_GHOST = r'''int vx_rejected;      /* ghost: the constant evaluation was ended by an out-of-range subscript */
static inline size_t vx_idx_ce(size_t i, size_t n) { if (!(i < n)) { vx_rejected = 1; __CPROVER_assume(0); } return i; }
unsigned vx_moved_n;  /* ghost (R20): number of move-assignments */
#define VX_MOVED(x) (vx_moved_n++, (x))
'''
PRELUDE = r'''
int vx_thrown;
#define VX_CAP %d
static inline size_t vx_idx(size_t i, size_t n) { __CPROVER_assert(i < n, "VX_BOUND subscript within logical capacity N"); return i; }
''' % CAP + CV_GHOST

# R8 (iterators are element offsets) rests on the one-line bodies of iterator_base / iterator / begin / end: under contract in unit cvec_iter
FACTS = []

UNIT = Unit('stdex', PRELUDE + cvector_struct('cvecv', 'uint32_t') + cvector_struct('cvec16', 'size16_t'), make_cvector('cvecv', 'uint32_t') + make_cvector('cvec16', 'size16_t'),
            consts=[('VX_FACT_%d' % i, '(' + rx + ')', None) for i, rx in enumerate(FACTS) if False])
UNIT.facts = FACTS

# ---------------------------------------------------------------- cbitset<N>
CB_SCOPE = [r'class\s+cbitset\b']
CB_MEMBERS = S(r'(?<![\w.>])data\b', 'self->data', name='R4:members', min=0)
CB_CONSTS = [S(r'\bunderlying_size\b', 'CB_USIZE', min=0, name='R9:underlying_size'), S(r'\bunderlying_count\b', 'CB_UCOUNT(self)', min=0, name='R9:underlying_count'),
             S(r'(?<![\w.>])N\b', 'self->N', min=0, name='R9:N')]
CBW = 2      # physical words


def cb_wf(p):
    return '(__CPROVER_w_ok(%s, sizeof(*%s)) && %s->N >= 1 && %s->N <= CB_WORDS * 64)' % ((p,) * 4)


CB_BIT = lambda p, i: '((%s->data[(%s) / 64] >> ((%s) %% 64)) & 1)' % (p, i, i)


def cb_frame(p, q, except_idx=None):
    """all other bits unchanged: word-wise with the bit masked out"""
    if except_idx is None:
        return '__CPROVER_forall { size_t %s; (%s < CB_WORDS) ==> %s->data[%s] == __CPROVER_old(*%s).data[%s] }' % (q, q, p, q, p, q)
    return ('__CPROVER_forall { size_t %s; (%s < CB_WORDS) ==> ((%s->data[%s] & ~(%s == (%s) / 64 ? ((uint64_t)1 << ((%s) %% 64)) : (uint64_t)0)) == (__CPROVER_old(*%s).data[%s] & ~(%s == (%s) / 64 ? ((uint64_t)1 << ((%s) %% 64)) : (uint64_t)0))) }'
            % (q, q, p, q, q, except_idx, except_idx, p, q, q, except_idx, except_idx))


def make_cbitset(pfx='cbitset', extra=False):
    V = 'struct %s' % pfx
    R = CB_CONSTS + [CB_MEMBERS, S(r'\bcheck_idx\(', '%s_check_idx(self, ' % pfx, min=0, name='R4:check_idx'), S(r'return \*this;', 'return self;', min=0, name='R4:this')]
    fns = []

    def one(method, header, csig, contract, rules=R, loops=None, harness_args='', harness_pre='', **kw):
        name = '%s_%s' % (pfx, method)
        h = 'void h_%s(void) { %s x; %s vx_thrown = 0; %s(&x%s); }' % (name, V, harness_pre, name, harness_args)
        fns.append(Fn(name=name, scope=CB_SCOPE, header=header, csig=csig, contract=contract, rules=list(rules), loops=loops, harness=h,
                      props=['C06', 'C01', 'C12'], between_ok=r'\s*(const)?\s*', **kw))

    one('check_idx', r'constexpr\s+void\s+check_idx\(size_type idx\)\s*const', 'void %s_check_idx(const %s* self, size_t idx)' % (pfx, V),
        '__CPROVER_requires(%s && vx_thrown == 0)\n__CPROVER_assigns(vx_thrown)\n/* returns only for idx < N (otherwise throws) */\n__CPROVER_ensures(idx < self->N && vx_thrown == 0)' % cb_wf('self'),
        harness_args=', i', harness_pre='size_t i;')
    one('set', r'constexpr\s+cbitset&\s+set\(size_type idx\)', '%s* %s_set(%s* self, size_t idx)' % (V, pfx, V),
        '__CPROVER_requires(%s && vx_thrown == 0)\n__CPROVER_assigns(vx_thrown, *self)\n'
        '__CPROVER_ensures(vx_thrown == 0 && idx < self->N && self->N == __CPROVER_old(self->N) && %s == 1 && __CPROVER_return_value == self)\n__CPROVER_ensures(idx < CB_WORDS * 64 && %s)'
        % (cb_wf('self'), CB_BIT('self', 'idx'), cb_frame('self', 'vq_cbs', 'idx')),
        harness_args=', i', harness_pre='size_t i;', replace=['%s_check_idx' % pfx])
    one('reset', r'constexpr\s+cbitset&\s+reset\(size_type idx\)', '%s* %s_reset(%s* self, size_t idx)' % (V, pfx, V),
        '__CPROVER_requires(%s && vx_thrown == 0)\n__CPROVER_assigns(vx_thrown, *self)\n'
        '__CPROVER_ensures(vx_thrown == 0 && idx < self->N && self->N == __CPROVER_old(self->N) && %s == 0 && __CPROVER_return_value == self)\n__CPROVER_ensures(idx < CB_WORDS * 64 && %s)'
        % (cb_wf('self'), CB_BIT('self', 'idx'), cb_frame('self', 'vq_cbr', 'idx')),
        harness_args=', i', harness_pre='size_t i;', replace=['%s_check_idx' % pfx])
    one('test', r'constexpr\s+bool\s+test\(size_type idx\)\s*const', 'bool %s_test(const %s* self, size_t idx)' % (pfx, V),
        '__CPROVER_requires(%s && vx_thrown == 0)\n__CPROVER_assigns(vx_thrown)\n__CPROVER_ensures(vx_thrown == 0 && idx < self->N && __CPROVER_return_value == (bool)%s)'
        % (cb_wf('self'), CB_BIT('self', 'idx')),
        harness_args=', i', harness_pre='size_t i;', replace=['%s_check_idx' % pfx])
    one('add', r'constexpr\s+void\s+add\(const cbitset<N>& other\)', 'void %s_add(%s* self, const %s* other)' % (pfx, V, V),
        '__CPROVER_requires(%s)\n__CPROVER_requires(%s)\n__CPROVER_requires(other->N == self->N)\n__CPROVER_assigns(*self)\n'
        '/* set union, word by word */\n__CPROVER_ensures(self->N == __CPROVER_old(self->N) && __CPROVER_forall { size_t vq_cba; (vq_cba < CB_WORDS) ==> (vq_cba < CB_UCOUNT(self) ==> self->data[vq_cba] == (__CPROVER_old(*self).data[vq_cba] | other->data[vq_cba])) && (vq_cba >= CB_UCOUNT(self) ==> self->data[vq_cba] == __CPROVER_old(*self).data[vq_cba]) })'
        % (cb_wf('self'), cb_wf('other').replace('w_ok', 'r_ok')),
        rules=[S(r'other\.data', 'other->data')] + R,
        loops={0: '__CPROVER_assigns(i, *self)\n__CPROVER_loop_invariant(i <= CB_UCOUNT(self) && self->N == __CPROVER_loop_entry(self->N) && __CPROVER_forall { size_t vq_cbl; (vq_cbl < CB_WORDS) ==> ((vq_cbl < i ==> self->data[vq_cbl] == (__CPROVER_loop_entry(*self).data[vq_cbl] | other->data[vq_cbl])) && (vq_cbl >= i ==> self->data[vq_cbl] == __CPROVER_loop_entry(*self).data[vq_cbl])) })\n__CPROVER_decreases(CB_UCOUNT(self) - i)'},
        harness_args=', &y', harness_pre='%s y;' % V)
    one('eq', r'constexpr\s+bool\s+operator\s*==\s*\(const cbitset<N>& other\)\s*const', 'bool %s_eq(const %s* self, const %s* other)' % (pfx, V, V),
        '__CPROVER_requires(%s && %s && other->N == self->N)\n__CPROVER_assigns()\n'
        '/* equal iff every word in use is equal */\n__CPROVER_ensures(__CPROVER_return_value == __CPROVER_forall { size_t vq_cbe; (vq_cbe < CB_WORDS) ==> (vq_cbe < CB_UCOUNT(self) ==> self->data[vq_cbe] == other->data[vq_cbe]) })'
        % (cb_wf('self').replace('w_ok', 'r_ok'), cb_wf('other').replace('w_ok', 'r_ok')),
        rules=[S(r'other\.data', 'other->data')] + R,
        loops={0: '__CPROVER_assigns(i)\n__CPROVER_loop_invariant(i <= CB_UCOUNT(self) && __CPROVER_forall { size_t vq_cbq; (vq_cbq < CB_WORDS) ==> (vq_cbq < i ==> self->data[vq_cbq] == other->data[vq_cbq]) })\n__CPROVER_decreases(CB_UCOUNT(self) - i)'},
        harness_args=', &y', harness_pre='%s y;' % V)
    if not extra:
        return fns
    # ---- the remaining members (used by regex::char_subset: set(), flip(); the others for completeness)
    one('flip1', r'constexpr\s+cbitset&\s+flip\(size_type idx\)', '%s* %s_flip1(%s* self, size_t idx)' % (V, pfx, V),
        '__CPROVER_requires(%s && vx_thrown == 0)\n__CPROVER_assigns(vx_thrown, *self)\n'
        '__CPROVER_ensures(vx_thrown == 0 && idx < self->N && self->N == __CPROVER_old(self->N) && %s == (1 ^ %s) && __CPROVER_return_value == self)\n__CPROVER_ensures(idx < CB_WORDS * 64 && %s)'
        % (cb_wf('self'), CB_BIT('self', 'idx'), CB_BIT('__CPROVER_old(*self)', 'idx').replace('->', '.'), cb_frame('self', 'vq_cbf', 'idx')),
        harness_args=', i', harness_pre='size_t i;', replace=['%s_check_idx' % pfx])
    one('set2', r'constexpr\s+cbitset&\s+set\(size_type idx, bool value\)', '%s* %s_set2(%s* self, size_t idx, bool value)' % (V, pfx, V),
        '__CPROVER_requires(%s && vx_thrown == 0)\n__CPROVER_assigns(vx_thrown, *self)\n'
        '__CPROVER_ensures(vx_thrown == 0 && idx < self->N && self->N == __CPROVER_old(self->N) && %s == (value ? 1 : 0) && __CPROVER_return_value == self)\n__CPROVER_ensures(idx < CB_WORDS * 64 && %s)'
        % (cb_wf('self'), CB_BIT('self', 'idx'), cb_frame('self', 'vq_cb2', 'idx')),
        harness_args=', i, b', harness_pre='size_t i; bool b;', replace=['%s_check_idx' % pfx])
    WORDS = RangeFor([(r'self->data', 'CB_UCOUNT(self)', 'self->data[{i}]', 'uint64_t', True)])
    for meth, val, doc in (('flip', '~__CPROVER_old(*self).data[vq_cbw]', 'every bit of the N is complemented'), ('set', '~(uint64_t)0', 'every bit set'), ('reset', '(uint64_t)0', 'every bit cleared')):
        lval = val.replace('__CPROVER_old(*self)', '__CPROVER_loop_entry(*self)')
        one(meth + '_all', r'constexpr\s+cbitset&\s+%s\(\)' % meth, '%s* %s_%s_all(%s* self)' % (V, pfx, meth, V),
            '__CPROVER_requires(%s)\n__CPROVER_assigns(*self)\n/* %s (whole words: the words in use) */\n'
            '__CPROVER_ensures(self->N == __CPROVER_old(self->N) && __CPROVER_return_value == self && __CPROVER_forall { size_t vq_cbw; (vq_cbw < CB_WORDS) ==> ((vq_cbw < CB_UCOUNT(self) ==> self->data[vq_cbw] == %s) && (vq_cbw >= CB_UCOUNT(self) ==> self->data[vq_cbw] == __CPROVER_old(*self).data[vq_cbw])) })'
            % (cb_wf('self'), doc, val),
            rules=CB_CONSTS + [CB_MEMBERS, WORDS, S(r'return \*this;', 'return self;', min=0, name='R4:this')],
            loops={0: '__CPROVER_assigns(VX_IDX, *self)\n__CPROVER_loop_invariant(VX_IDX <= CB_UCOUNT(self) && self->N == __CPROVER_loop_entry(self->N) && __CPROVER_forall { size_t vq_cbw; (vq_cbw < CB_WORDS) ==> ((vq_cbw < VX_IDX ==> self->data[vq_cbw] == %s) && (vq_cbw >= VX_IDX ==> self->data[vq_cbw] == __CPROVER_loop_entry(*self).data[vq_cbw])) })\n__CPROVER_decreases(CB_UCOUNT(self) - VX_IDX)' % lval})
    one('size', r'constexpr\s+size_type\s+size\(\)', 'size_t %s_size(const %s* self)' % (pfx, V),
        '__CPROVER_requires(%s)\n__CPROVER_assigns()\n__CPROVER_ensures(__CPROVER_return_value == self->N)' % cb_wf('self').replace('w_ok', 'r_ok'))
    return fns


def cbitset_struct(pfx='cbitset', words=CBW):
    return ('#define CB_WORDS %d\n#define CB_USIZE ((size_t)(sizeof(uint64_t) * 8))\n'
            'typedef uint64_t underlying_type;\nstruct %s { size_t N; /* ghost: template parameter */ uint64_t data[CB_WORDS]; };\n'
            '#define CB_UCOUNT(s) (((s)->N / CB_USIZE) + (((s)->N %% CB_USIZE) ? 1 : 0))\n' % (words, pfx))


CB_FACTS = [r'static const size_type underlying_size = sizeof\(underlying_type\) \* 8;',
            r'static const size_type underlying_count = \(N / underlying_size\) \+ \(\(N % underlying_size\) \? 1 : 0\);',
            r'underlying_type data\[underlying_count\] = \{\};', r'using underlying_type = std::uint64_t;']

UNIT = Unit('stdex', PRELUDE + cvector_struct('cvecv', 'uint32_t') + cvector_struct('cvec16', 'size16_t') + cbitset_struct(),
            make_cvector('cvecv', 'uint32_t', extra=True) + make_cvector('cvec16', 'size16_t', extra=True) + make_cbitset(extra=True))
UNIT.facts = FACTS + CB_FACTS


from vx import native as _N


def _twin_cbitset(method):
    def tw(o):
        v = _N.trace_vals(o, 'h_cbitset_%s' % method)
        i = _N.to_int(v.get('i'), 0); d0 = _N.to_int(v.get('x.data[0l]'), 0) & 0xffffffffffffffff; d1 = _N.to_int(v.get('x.data[1l]'), 0) & 0xffffffffffffffff
        return _N.TWIN_HEAD + """
int main() {
    stdex::cbitset<128> b; uint64_t w[2] = { %dull, %dull }; size_t idx = %d %% 128;
    for (size_t k = 0; k < 128; ++k) if ((w[k / 64] >> (k %% 64)) & 1) b.set(k);
    b.%s(idx);
    int bad = 0;
    for (size_t k = 0; k < 128; ++k) {
        bool want = (k == idx) ? %s : (((w[k / 64] >> (k %% 64)) & 1) != 0);
        if (b.test(k) != want) { std::printf("bit %%zu is %%d after %s(%%zu), specified %%d\\n", k, (int)b.test(k), idx, (int)want); ++bad; }
    }
    return bad ? 1 : 0;
}""" % (d0, d1, i, method, 'true' if method == 'set' else 'false', method)
    return tw


for _f in UNIT.fns:
    if _f.name in ('cbitset_set', 'cbitset_reset'):
        _f.twin = _twin_cbitset(_f.name.split('_')[1])


def _twin_cvector(method, T):
    def tw(o):
        pfx = 'cvec16' if T == 'uint16_t' else 'cvecv'
        v = _N.trace_vals(o, 'h_%s_%s' % (pfx, method))
        size = min(_N.to_int(v.get('x.current_size'), 0), 16); n = min(max(_N.to_int(v.get('x.N'), 16), 1), 16)
        data = [_N.to_int(v.get('x.the_data[%dl]' % k), 0) for k in range(16)]
        a = _N.to_int(v.get('a'), 0); b = _N.to_int(v.get('b'), 0); val = _N.to_int(v.get('v'), 7)
        body = {'push_back': 'c.push_back((T)%d); ok = c.size() == n0 + 1 && c[n0] == (T)%d;' % (val, val),
                'emplace_back': 'c.emplace_back((T)%d); ok = c.size() == n0 + 1 && c[n0] == (T)%d; { stdex::cvector<Tr, 4> t; t.emplace_back(Tr{}); if (tr_copies) { ok = false; std::printf("emplace_back copied the value %%d time(s) instead of moving it\\n", tr_copies); } }' % (val, val),
                'pop_back': 'c.pop_back(); ok = c.size() == n0 - 1;',
                'erase': 'c.erase(c.end() - (n0 - %d), c.end()); ok = c.size() == (size_t)%d;' % (a, a)}[method]
        return _N.TWIN_HEAD + """
typedef %s T;
static int tr_copies = 0;    // a trivially destructible value type that counts its copies
struct Tr { int v = 0; Tr() = default; Tr(Tr&&) = default; Tr& operator=(Tr&&) = default; Tr(const Tr& o) : v(o.v) { ++tr_copies; } Tr& operator=(const Tr& o) { v = o.v; ++tr_copies; return *this; } };
int main() {
    stdex::cvector<T, 16> c; T init[16] = { %s }; size_t n0 = %d;
    for (size_t k = 0; k < n0; ++k) c.push_back(init[k]);
    bool ok = true;
    %s
    for (size_t k = 0; k < c.size() && k < n0; ++k) if (c[k] != init[k]) { ok = false; std::printf("element %%zu changed\\n", k); }
    std::printf("size %%zu -> %%zu\\n", n0, c.size());
    return ok ? 0 : 1;
}""" % (T, ', '.join(str(x) for x in data), size, body)
    return tw


for _f in UNIT.fns:
    for _m in ('push_back', 'emplace_back', 'pop_back', 'erase'):
        if _f.name == 'cvec16_' + _m:
            _f.twin = _twin_cvector(_m, 'uint16_t')
        if _f.name == 'cvecv_' + _m:
            _f.twin = _twin_cvector(_m, 'uint32_t')
