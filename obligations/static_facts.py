"""static facts read off the real header text (supporting obligations, reported with what was scanned)"""
import re


def _scan(src, pat):
    return [(src.line_of(m.start()), m.group(0)) for m in re.finditer(pat, src.text)]


def c15_static(src):
    out = []
    for ident, pat, why in (('no-mutable', r'\bmutable\b', 'a mutable member could be written by a const parse'),
                            ('no-const_cast', r'\bconst_cast\b', 'const_cast could remove the constness of the parser object'),
                            ('no-thread_local', r'\bthread_local\b', 'hidden per-thread state')):
        hits = _scan(src, pat)
        out.append(dict(kind='semantic', id='C15/' + ident, ok=not hits, desc='header contains no `%s` (%s)' % (ident[3:], why), detail=hits[:5], line=hits[0][0] if hits else None))
    # function-local / namespace-scope non-const statics
    hits = [(l, t) for l, t in _scan(src, r'(?m)^[ \t]*static\s+(?!const\b|constexpr\b|_assert|const\s)[^;(]*;')]
    out.append(dict(kind='semantic', id='C15/no-mutable-static', ok=not hits, desc='no static object that is not const/constexpr', detail=hits[:5], line=hits[0][0] if hits else None))
    # namespace-scope `inline` variables that are not const/constexpr (C++17 inline variables are shared by every translation unit and thread)
    hits = _scan(src, r'(?m)^[ \t]*inline\s+(?!constexpr\b|const\b)(?:[\w:]+(?:<[^;()]*>)?[\s&*]+)+\w+\s*(=[^;()]*(\{[^;]*\})?)?;')
    out.append(dict(kind='semantic', id='C15/no-mutable-inline-variable', ok=not hits, desc='no `inline` variable that is not const/constexpr (shared mutable state)', detail=hits[:5], line=hits[0][0] if hits else None))
    # parse entry points are const members
    for name in ('parse', 'context_parse', 'write_diag_str'):
        ms = list(re.finditer(r'constexpr\s+[\w:<>\s]+?\b%s\s*\(' % name, src.text))
        bad = []
        for m in ms:
            # find the closing paren of the parameter list and look for `const` before `{`
            depth, i = 0, m.end() - 1
            while True:
                c = src.text[i]
                if c == '(':
                    depth += 1
                elif c == ')':
                    depth -= 1
                    if depth == 0:
                        break
                i += 1
            tail = src.text[i + 1:src.text.index('{', i)]
            scope_ok = 'const' in tail
            # only members of class parser / regex::expr: skip free functions (none are named so)
            if not scope_ok and 'debug_parse' not in m.group(0):
                bad.append((src.line_of(m.start()), m.group(0).strip()))
        out.append(dict(id='C15/%s-is-const' % name, ok=bool(ms) and not bad, desc='every `%s` member function is const' % name, detail=bad[:5], line=bad[0][0] if bad else None))
    return out


def c16_static(src):
    """every read of a `verbose` field is the condition of an if, or the copy opts.set_verbose(ps.options.verbose), or a setter/declaration"""
    allowed = [r'if\s*\(\s*(ps\.)?options\.verbose\s*\)', r'opts\.set_verbose\(ps\.options\.verbose\)', r'bool\s+verbose\s*=\s*false\s*;',
               r'set_verbose\(bool val = true\)\s*\{\s*verbose = val;', r'\.set_verbose\(\)']
    bad = []
    for m in re.finditer(r'\bverbose\b', src.text):
        a, b = max(0, m.start() - 60), m.end() + 40
        ctx = src.text[a:b]
        if not any(re.search(p, ctx) for p in allowed):
            bad.append((src.line_of(m.start()), ctx.strip().replace('\n', ' ')[:100]))
    return [dict(id='C16/verbose-guards', ok=not bad, desc='every use of `verbose` is an `if (..verbose)` guard, the copy into match_options, or a setter/declaration', detail=bad[:5], line=bad[0][0] if bad else None)]


def buffers_static(src):
    """C04/C07: what of the buffer adaptors is not under contract in unit buffers: the cstring_buffer constructor copies the literal
    through a pack expansion (R18), pinned as a pattern fact, not a proof."""
    pats = [
        ('copy_array', r'constexpr void copy_array\(T \*a1, const T\* a2, std::index_sequence<I\.\.\.>\)\s*\{\s*\(void\(a1\[I\] = a2\[I\]\), \.\.\.\);\s*\}'),
        ('cstring-ctor', r'constexpr cstring_buffer\(const char\(&source\)\[N1\]\)\s*\{\s*utils::copy_array\(data, source, std::make_index_sequence<N1>\{\}\);\s*\}'),
    ]
    out = []
    for ident, pat in pats:
        n = len(re.findall(pat, src.text, re.S))
        out.append(dict(id='buffers/' + ident, ok=(n == 1), desc='buffer adaptor one-liner `%s` is the pointer operation the lowering (R7) substitutes for it' % ident,
                        detail='matches=%d' % n, line=None))
    return out


REGEX_GRAMMAR = ["number(regex_digit_09)", "number(number, regex_digit_09)", "primary(regex_digit_09)", "primary(regex_primary)", "primary('(', expr, ')')",
                 "q_expr(primary)", "q_expr(primary, '*')", "q_expr(primary, '+')", "q_expr(primary, '?')", "q_expr(primary, '{', number, '}')",
                 "concat(q_expr)", "concat(concat, q_expr)", "alt(concat)", "alt(alt, '|', alt)", "expr(alt)"]


def regex_grammar_static(src):
    """C03/C17: which patterns are refused 'by the grammar' is a statement about THIS rule list (its LR(1) treatment is C01, not mechanised):
    the rule shapes of regex_parser_object are pinned; if they change the claim no longer describes the code -> undecided (a pattern fact)."""
    from vx.lower import match_close
    m = re.search(r'constexpr parser regex_parser_object\(', src.text)
    got = None
    if m:
        cl = match_close(src.text, m.end() - 1, '(', ')')
        block = src.text[m.end():cl]
        r = re.search(r'\brules\(', block)
        if r:
            rc = match_close(block, r.end() - 1, '(', ')')
            got = [re.sub(r'\s+', ' ', x).strip() for x in re.findall(r'(?m)^\s*(\w+\((?:[^()]|\'\(\'|\'\)\')*\))\s*(?:,|>=|>>=|$)', block[r.end():rc])]
    return [dict(id='regex-grammar/rules', ok=(got == REGEX_GRAMMAR), desc='the rule list of the regex grammar is the documented one (digit counts, primaries, postfix operators, concatenation, alternation)',
                 detail=None if got == REGEX_GRAMMAR else ('found: %r' % (got,))[:400], line=src.line_of(m.start()) if m else None)]
