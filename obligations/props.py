"""property -> units whose functions carry it (functions are tagged with props=[...] in the unit recipes)"""
import os, sys
sys.path.insert(0, os.path.dirname(os.path.dirname(os.path.abspath(__file__))))

PROPS = {
    'C17': dict(units=['utils'],
                claim='regex_lexer scanner stays inside the pattern array and rejects lexical malformations; find_str never returns a wrong or uninitialized index',
                assumptions=['patterns are NUL-terminated arrays (cstring_buffer keeps the terminator at end())',
                             'grammar-level rejections (unbalanced group, leading quantifier, empty alternative, {}) rest on C01 applied to the regex grammar: not mechanised']),
}
