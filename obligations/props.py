"""property -> units whose functions carry it.  A function counts for a property when the property id is in its
`props` tag (unit recipes / contracts/*.spec), or when the unit is listed under `all` for the property."""
import os, sys
sys.path.insert(0, os.path.dirname(os.path.dirname(os.path.abspath(__file__))))
from obligations import static_facts as SF

L_PATH = '[L-path] the state stack is a path of the LR automaton (a state with a complete item of length n has n predecessors whose bottom has a goto on the left side; success is reached with the root value on the stack): assumed at the call sites of reduce/success, not mechanised'
L_IDS = 'ghost id counter does not wrap: fewer than 2^32-16 semantic values are created in one parse'
TABLE_WF = 'parse_table/grammar_info well-formedness (args in range, eof never shifted, shift_error_recovery_token only in the error column) is a precondition of the driver; it is what state_analyzer::transitions writes'
LEXER = 'the lexer is represented by its contract inside the driver proofs (default result, or index < sizeof...(Terms) and 1 <= len <= remaining); dfa_match meets it only for automata none of whose terms matches the empty string'
R13 = 'semantic values are ghost identifiers (R13): std::variant/optional/tuple, the functors and reduce_value_impl are outside the verified text'

# obligations that belong to particular properties only (not counted, pass or fail, for the others)
OWNED = {r'stack/capacity:': ['C06', 'C12'], r'stack/capacity-shape:': ['C06', 'C12', 'C07']}

L_KNUTH = "Knuth's LR(1) theorem (closed states + goto kernels + table read off the items + driver executing the table => accepts exactly L(G)) is not mechanised; analyze_states (the work-list loop), closure, transitions and the four FIRST/nullable functions are each under contract with their callees replaced by abstract contracts over ghost tables, i.e. each does the textbook step given what the others return - that the memoised recursion reaches the least fixed point is not claimed (finding D4)"
GLUE = 'grammar_info glue: the constructor\'s step order, analyze_terms / analyze_nterms / analyze_rules (their pack expansions lowered to loops, R21), analyze_term / analyze_nterm / analyze_eof / analyze_error_recovery_token / make_symbol / analyze_rule, create_lexer and init_reductors are under contract (units glue, reductors) against abstract DSL objects whose accessors are under contract in units terms, rules, values; the tuple builders terms() / nterms() / rules() / nterm::operator() and std::tuple / std::get themselves are outside the extraction'

PROPS = {
    'C01': dict(units=['state_analyzer', 'state_analyzer@small', 'driver', 'stdex', 'glue', 'charnames'],
                claim='local step contracts of the LR(1) construction that are within reach: item index encode/decode round trip, memo-key injectivity of the FIRST/nullable slice memos, rule sorting (ordered + permutation) and per-nonterminal slices (partition), add_situation (item set, item list, bucket by symbol after the dot, kernel), bitset primitives; and the driver executing the table entry of (top state, presented term)',
                assumptions=[L_KNUTH, GLUE, L_PATH, TABLE_WF]),
    'C03': dict(units=['regex_decode', 'dfa', 'dfa@small', 'charnames'], static=[SF.regex_grammar_static],
                claim='the specified links of the chain: decoding of characters/escapes/hex and ranges (unsigned, inclusive), decoding of a whole primary lexeme (`.`, single element, set = union of its items, complemented for [^), the automaton run loop (longest prefix, slot-0 winner, stops only at end or missing transition), expr::match = whole-string recognition of term 0 without forming a pointer from the failure sentinel',
                assumptions=['language equality over unbounded strings is not expressible as a contract; the composition operators (cat/alt/star/plus/opt/rep by in-place merging) are not verified and are unsound (finding D9)',
                             'well-formedness of the library-built automata (every transition none or < size) rests on the builder, not verified: [L-wf]', 'string_view_to_subset is proved for set lexemes of at most 20 bytes (size of the ghost boundary-mark arrays; the loop itself is closed by its invariant), under the item structure the lexer guarantees, which is assumed in the harness (vx_lexeme) and not derived from match_range by induction', 'dfa_builder::rep as a whole is not under contract (only its innermost shift loop): the job does not finish']),
    'C05': dict(units=['state_analyzer', 'terms', 'rules', 'glue'],
                claim="solve_conflict decides reduce iff rule precedence > term precedence or equal with the rule left-associative (from the statement); the rule's last term is its right-most terminal; rule precedence = explicit [n] if non-zero else the last term's else 0; rule associativity = the last term's",
                assumptions=['conflict detection inside transitions() (which entry gets the verdict, has_sr_conflict) is not under contract', L_KNUTH, GLUE]),
    'C07': dict(units=['dfa', 'driver', 'buffers', 'stdex'], all=['driver', 'stdex'], static=[SF.buffers_static],
                claim='absence of undefined behaviour (every CBMC safety check and every woven logical bound) on the whole parse path including the failure and recovery paths (lexical error in get_current_term, non-matching regex::expr::match, popping during recovery): the exact condition under which a constant evaluator must accept the evaluation; the parse path is one lowered text for all buffer kinds (R7)',
                assumptions=["that g++'s and clang's constant evaluators and the compiled code compute the same function of a UB-free evaluation is the language standard (trusted)",
                             'buffer adaptors: cstring_buffer::iterator operators, begin/end and get_view of the three buffers are under contract (unit buffers) with std::string / std::string_view members read as (pointer, length) pairs and their iterators as pointers (standard-library meaning, trusted); the cstring_buffer constructor (pack-expanded copy_array) is a pattern fact only', LEXER]),
    'C11': dict(units=['diag', 'state_analyzer', 'state_analyzer@small', 'glue', 'dfadiag', 'charnames'],
                claim='write_state_diag_str prints for every term column exactly one action line of the kind the table entry has, with the rule number / target state of that entry (including the losing reduction of a resolved S/R conflict); the RULES list numbers rules as the action lines do; all name/rule/symbol indices in bounds; add_situation files an item under the symbol after its dot',
                assumptions=['that the item sets and conflict flags in the table are the true LR(1) ones is C01 (transitions/closure not under contract)', 'text formatting is lowered to events (R10)', 'DFA dump: f_range (a run of bytes is shown with its target, the ghost-chosen byte exactly when it is in the run) and the per-automaton loop (one line per state, in order) are under contract; the per-state writer write_dfa_state_diag_str is NOT (job does not finish): its contract is assumed where the loop uses it']),
    'C12': dict(units=['dfa', 'driver', 'stdex', 'state_analyzer', 'cvec_iter', 'glue', 'state_analyzer@small'],
                claim='dfa_size_analyzer arithmetic (prim/add/rep: {0} keeps the slice, {n} adds n-1 copies) under an explicit no-wrap precondition; cvector preconditions (size < N) as call-site obligations; stack/capacity of the driver; add_situation capacity preconditions',
                assumptions=['analyser vs builder lock-step over the same parse is not mechanised; the builder (rep/cat/alt/...) is not under contract', 'sufficiency of the default table caps is a counting (pigeonhole) argument, not mechanised',
                             'nothing in the header establishes the no-wrap precondition of dfa_size_analyzer::rep (finding D12)']),
    'C02': dict(units=['driver', 'stdex', 'dfa', 'terms', 'rules', 'values', 'glue', 'reductors', 'cvec_iter', 'ftors'],
                claim='driver-level half of bottom-up evaluation: which rule functor is invoked, with which stack slice, in which order, once; shift applies the term functor of the shifted term to the pending lexeme; success returns the bottom value',
                assumptions=[L_PATH, L_IDS, TABLE_WF, R13, 'that the popped slice is the handle of the unique derivation is the LR(1) theorem (C01), not mechanised']),
    'C04': dict(units=['driver', 'utils', 'dfa', 'dfa@small', 'buffers', 'terms', 'values', 'charnames'], static=[SF.buffers_static],
                claim='whitespace skipping is exactly the documented sets; the lexer is asked once at the skipped position with the whole rest of the buffer; the lexeme is exactly [current_it, current_it+len); a failure result yields one Unexpected character report',
                assumptions=[LEXER, 'longest match/first-listed priority of the automaton itself: unit dfa (dfa_match/run); merge is under contract for its local step (edges are only added; every byte 0..255 of `from` is carried over to `to`), the quick-tier variant assuming that transition targets are states in use ([L-wf], a woven __CPROVER_assume; proved preserved by the full contract in the thorough tier); that the union automaton built by such merging recognises the union language is NOT claimed (finding D10)']),
    'C06': dict(units=['driver', 'stdex', 'utils', 'regex_lexer', 'dfa', 'values', 'cvec_iter', 'state_analyzer', 'charnames'], all=['driver', 'stdex'],
                claim='every CBMC safety check (bounds, pointer validity/overflow, signed/unsigned overflow, division) plus the logical bounds woven by R9/R7 on every parse-path function under its precondition; recovery pops and input discarding strictly progress',
                assumptions=[L_PATH, L_IDS, TABLE_WF, LEXER, 'termination of a run of reductions that consume nothing (no reduce cycle in a conflict-free table) is not mechanised',
                             'std::vector / std::string stacks and buffers are trusted; the proof is for the cvector stacks']),
    'C08': dict(units=['driver', 'state_analyzer', 'glue', 'state_analyzer@small'],
                claim='step relation of the driver loop written from the documented recovery algorithm: enter (one message, nothing discarded), pop (one state and its value), shift of the error symbol, input discarding, exits',
                assumptions=[L_PATH, L_IDS, TABLE_WF, LEXER]),
    'C09': dict(units=['driver', 'terms', 'values', 'glue', 'dfa', 'charnames', 'state_analyzer'],
                claim='without error rules and not verbose: no event before the failure, exactly one (Unexpected character | Syntax error) on failure with position and payload, none on success',
                assumptions=[L_PATH, TABLE_WF, LEXER, 'that the term reported is the first that cannot continue a valid prefix is the immediate-error-detection property of canonical LR(1) tables (C01), not mechanised']),
    'C10': dict(units=['driver', 'values'],
                claim="source_point::update follows the statement's rule byte by byte; every advance of the parse position is paired with an update over exactly that range; values and messages carry the source point of the pending term's first byte",
                assumptions=['line/column counters below 2^30 (cannot be reached with buffers <= 4096 bytes; the counters are 32-bit)', LEXER]),
    'C13': dict(units=['ctxpath', 'entry', 'reductors', 'rules', 'driver'],
                claim="link by link, on the value-category ghost of R20: the convenience overloads hand the caller's context (same object, same category) to the full context_parse, parse() hands the no_type context; the driver loop, rr_conflict and reduce each hand it on perfectly forwarded; value_reductors::invoke / reduce_value / reduce_value_impl pass it first to the rule's functor exactly when the rule was built with >>= (operator>>= sets RequiresContext, operator>= clears it) and not at all otherwise; reductions happen in the order the driver contract of C02 states",
                assumptions=['identity and value category are ghost state (R20); constness of the referenced type and the template deduction of Context are C++ typing, checked by the compilers, not by this proof', R13,
                             'that a functor which ignores its context computes the same value with any context is a property of the user functor', L_PATH]),
    'C19': dict(units=['ftors'],
                claim='the parameter list of every helper functor, parsed from the real text (R22), selects exactly the documented positions for every arity up to 9 and every valid position pair: _eX returns the X-th argument itself (same object, category, constness); construct<T, I> builds T from the I-th, forwarded; emplace_back<C, A> / push_back<C, A> append the A-th to the C-th (emplace_back: as a non-const rvalue, i.e. moved) and return the C-th as an rvalue of the same object (not a copy); val(v) yields v and create<T> a default T whatever the arguments are',
                assumptions=['the lengths of the `ignore<...>` packs are the expressions in the primary templates\' default arguments `std::make_index_sequence<EXPR>` (grabbed from the text); that partial specialisation selects the specialisation whose pack has that length, and that overload resolution binds argument k to parameter k, is the C++ language (trusted)',
                             'values are opaque (R13): what the container does with the appended element is the container\'s business (std::vector: trusted)']),
    'C14': dict(units=['driver', 'stdex', 'reductors', 'cvec_iter', 'ftors'],
                claim='driver-level linearity of value identifiers: ids on the stack are pairwise distinct, reduce erases exactly the slice it passed, pop_stacks discards, success returns the bottom; nothing reads an erased slot',
                assumptions=[L_PATH, L_IDS, R13, 'rvalue passing, move-only types, moved-from reads inside reduce_value_impl and exactly-once destruction are C++ object semantics outside the verified text']),
    'C15': dict(units=['driver'], all=['driver'], static=[SF.c15_static],
                claim='frame: no parse-path function writes parse_table, gi, state_count, names or any other parser member (assigns clauses contain only parse-local state); static scan: no mutable/const_cast/function-local static, parse members const',
                assumptions=['data-race freedom follows from read-only sharing; no schedule is explored', R13]),
    'C16': dict(units=['driver', 'values', 'entry', 'charnames', 'dfa'], all=['driver'], static=[SF.c16_static],
                claim='every contract states the same state change for verbose on and off (verbose only adds events); trace payloads (Shift to, Reduced using rule, Go to, Recognized) equal the action performed',
                assumptions=['stream type: both no_stream and std::ostream lower to the ghost event sink (R10); text formatting is not verified', LEXER]),
    'C17': dict(units=['utils', 'regex_lexer', 'terms', 'values', 'glue', 'charnames'], static=[SF.regex_grammar_static],
                claim='regex_lexer::match and its helpers read only the pattern array (terminator included) and refuse raw non-printable bytes, dangling backslashes and unterminated sets; find_str never returns a wrong or uninitialized index',
                assumptions=['patterns are NUL-terminated arrays (cstring_buffer keeps the terminator at end())',
                             'grammar-level rejections (unbalanced group, leading quantifier, empty alternative, {}) rest on C01 applied to the regex grammar: not mechanised']),
    'C18': dict(units=['driver', 'regex_lexer', 'terms', 'values'],
                claim='get_current_term under the weakest custom-lexer contract: asked once per needed term after the same whitespace skipping, index used unchanged, exactly len bytes pending, default result => Unexpected character',
                assumptions=[LEXER, 'custom_term constructor and accessors are under contract (unit terms); its value typing (internal_value_type, value_type_t) is C++ template machinery outside the verified text']),
}
