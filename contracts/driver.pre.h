/* ---- predicates used by the driver contracts ---- */
#define VX_SHIFTK(k) ((k) == parse_table_entry_kind__shift || (k) == parse_table_entry_kind__shift_error_recovery_token)
#define VX_REDK(k)   ((k) == parse_table_entry_kind__reduce || (k) == parse_table_entry_kind__rr_conflict)
#define VX_CELL_OK(e) ((e).kind <= parse_table_entry_kind__rr_conflict && (VX_SHIFTK((e).kind) ==> (e).arg < state_count) && (VX_REDK((e).kind) ==> (e).arg < rule_count))
#define VX_WF_TABLE (VX_PARAMS_OK && state_count >= 1 && state_count <= state_count_cap && \
    __CPROVER_forall { size_t vq_tab; (vq_tab < PH_STATES * PH_SYMS) ==> VX_CELL_OK(parse_table[vq_tab / PH_SYMS][vq_tab % PH_SYMS]) })
#define VX_RULE_OK(r) ((r).l_idx < nterm_count && (r).r_idx < rule_count && (r).r_elements <= max_rule_element_count && (r).r_elements == vx_rule_len[(r).r_idx])
#define VX_WF_GI (__CPROVER_forall { size_t vq_gi; (vq_gi < PH_RULES) ==> VX_RULE_OK(gi.rule_infos[vq_gi]) })
#define VX_CS ps_cursor_stack
#define VX_VS ps_value_stack
#define VX_WF_STACKS (VX_CS.N >= 1 && VX_CS.N <= VX_CAP && VX_CS.current_size <= VX_CS.N && VX_VS.N == VX_CS.N && VX_VS.current_size <= VX_VS.N)
#define VX_CS_RANGE (__CPROVER_forall { size_t vq_cs; (vq_cs < VX_CAP) ==> (vq_cs < VX_CS.current_size ==> VX_CS.the_data[vq_cs] < state_count) })
/* C14: ids on the value stack are pairwise distinct (strictly increasing) and older than the fresh-id counter */
#define VX_VS_LINEAR (__CPROVER_forall { size_t vq_vs; (vq_vs < VX_CAP) ==> (vq_vs < VX_VS.current_size ==> (VX_VS.the_data[vq_vs] < vx_next_id && (vq_vs >= 1 ==> VX_VS.the_data[vq_vs - 1] < VX_VS.the_data[vq_vs]))) })
#define VX_WF_BUF (__CPROVER_r_ok(g_buf, g_len + 1) && VX_OFF(g_buf) == 0 && g_len <= VX_MAXBUF && \
   __CPROVER_same_object(ps_current_it, g_buf) && __CPROVER_same_object(ps_current_end_it, g_buf) && __CPROVER_same_object(ps_buffer_end, g_buf) && \
   VX_OFF(ps_buffer_end) == g_len && VX_OFF(ps_current_it) <= g_len && VX_OFF(ps_current_end_it) <= g_len)
#define VX_SP_OK (ps_current_sp.line >= 1 && ps_current_sp.column >= 1 && ps_current_sp.line < 0x40000000u && ps_current_sp.column < 0x40000000u)
/* whitespace as documented: tab, LF, VT, FF, CR, space; LF only when skip_newline */
#define VX_IS_WS(c, nl) ((c) == 9 || (c) == 11 || (c) == 12 || (c) == 13 || (c) == 32 || ((nl) && (c) == 10))
/* frames */
#define VX_EV vx_ev_n, vx_ev_kind, vx_ev_a0, vx_ev_a1, vx_ev_a2
#define VX_UNCH_CS_BELOW(q, n) (__CPROVER_forall { size_t q; (q < VX_CAP) ==> (q < (n) ==> VX_CS.the_data[q] == __CPROVER_old(VX_CS).the_data[q]) })
#define VX_UNCH_VS_BELOW(q, n) (__CPROVER_forall { size_t q; (q < VX_CAP) ==> (q < (n) ==> VX_VS.the_data[q] == __CPROVER_old(VX_VS).the_data[q]) })

bool g_noerr;
/* harness: every global gets an arbitrary value; the buffer is allocated */
void vx_havoc(void)
{
  size_t a, b, c, d, e, f, g, h; P_TERMS = a; P_NTERMS = b; P_RULES = c; P_MAXLEN = d; P_EMPTY = e; P_SUM_N1 = f; P_STATE_CAP = g; P_SIT_CAP = h;
  struct grammar_info tgi; gi = tgi;
  __CPROVER_havoc_object(parse_table);
  size16_t sc; state_count = sc;
  __CPROVER_havoc_object(term_names); __CPROVER_havoc_object(nterm_names); __CPROVER_havoc_object(vx_rule_len);
  bool gl; VX_GENERATE_LEXER = gl;
  struct cvec16 cs; ps_cursor_stack = cs; struct cvecv vs; ps_value_stack = vs;
  struct parse_options po; ps_options = po; struct source_point sp; ps_current_sp = sp;
  size16_t ti; ps_current_term_idx = ti; bool rm, cm; ps_recovery_mode = rm; ps_consume_mode = cm;
  size_t len; __CPROVER_assume(len <= VX_MAXBUF); g_len = len; g_buf = malloc(len + 1); __CPROVER_assume(g_buf);
  size_t o1, o2; __CPROVER_assume(o1 <= len && o2 <= len);
  ps_current_it = g_buf + o1; ps_current_end_it = g_buf + o2; ps_buffer_end = g_buf + len;
  const char* gp; g_pos = gp; size_t gk; g_k = gk;
  unsigned n1; vx_ev_n = n1; int k1; vx_ev_kind = k1; vx_value id; vx_next_id = id;
  unsigned n2, n3, n4, n5; vx_tv_n = n2; vx_inv_n = n3; vx_lex_n = n4; vx_ev_err_n = n5;
  unsigned l1, l2; g_sp_line = l1; g_sp_col = l2;
  vx_thrown = 0; bool ne; g_noerr = ne;
}

/* ---- event / state shorthand for contracts ---- */
#define VX_SPCODE(sp) ((((unsigned long)(sp).line) << 32) | (unsigned long)(sp).column)
#define VX_EV_NONE (vx_ev_n == __CPROVER_old(vx_ev_n) && vx_ev_kind == __CPROVER_old(vx_ev_kind) && vx_ev_a0 == __CPROVER_old(vx_ev_a0) && vx_ev_a1 == __CPROVER_old(vx_ev_a1) && vx_ev_a2 == __CPROVER_old(vx_ev_a2))
/* ghost counters saturate at 1000 (vx_emit etc.), so the real arithmetic keeps its overflow checks */
#define VX_INC(x) (__CPROVER_old(x) < 1000 ? (x) == __CPROVER_old(x) + 1 : (x) == __CPROVER_old(x))
#define VX_EV_ONE(k) (VX_INC(vx_ev_n) && vx_ev_kind == (k))
#define VX_EV_VERBOSE_ONLY(k) (ps_options.verbose ? VX_EV_ONE(k) : VX_EV_NONE)
#define VX_SP_MIRROR (g_sp_line == ps_current_sp.line && g_sp_col == ps_current_sp.column)
#undef VX_SP_OK
/* the position bookkeeping cannot overflow: both counters are bounded by 1 + bytes passed */
#define VX_SP_OK (ps_current_sp.line >= 1 && ps_current_sp.column >= 1 && __CPROVER_same_object(g_pos, g_buf) && ps_current_sp.line <= 1 + VX_OFF(g_pos) && ps_current_sp.column <= 1 + VX_OFF(g_pos) && VX_OFF(g_pos) <= g_len)
#define VX_BYTE(off) ((unsigned char)g_buf[off])
/* table facts beyond VX_CELL_OK that the driver relies on (established by state_analyzer::transitions):
   the eof column is never shifted, shift_error_recovery_token occurs exactly in the error-token column */
#define VX_COL(t) (nterm_count + (t))
#define VX_COLS_OK (__CPROVER_forall { size_t vq_cols; (vq_cols < PH_STATES) ==> ( \
      parse_table[vq_cols][VX_COL(eof_idx)].kind != parse_table_entry_kind__shift && parse_table[vq_cols][VX_COL(eof_idx)].kind != parse_table_entry_kind__shift_error_recovery_token \
   && parse_table[vq_cols][VX_COL(error_recovery_token_idx)].kind != parse_table_entry_kind__shift && parse_table[vq_cols][VX_COL(error_recovery_token_idx)].kind != parse_table_entry_kind__success) }) 
#define VX_NO_SERT_IN_TERM_COLS (__CPROVER_forall { size_t vq_nsert; (vq_nsert < PH_STATES * PH_TERMS) ==> ((vq_nsert % PH_TERMS) != error_recovery_token_idx && (vq_nsert % PH_TERMS) < term_count ==> parse_table[vq_nsert / PH_TERMS][VX_COL(vq_nsert % PH_TERMS)].kind != parse_table_entry_kind__shift_error_recovery_token) })
/* C09's hypothesis "without error rules": no state accepts the error symbol */
#define VX_NOERR (__CPROVER_forall { size_t vq_noerr; (vq_noerr < PH_STATES) ==> parse_table[vq_noerr][VX_COL(error_recovery_token_idx)].kind == parse_table_entry_kind__error })
#define VX_PENDING_OK (VX_OFF(ps_current_it) == VX_OFF(ps_current_end_it) || (ps_current_term_idx == eof_idx && VX_OFF(ps_current_it) == g_len) || (ps_current_term_idx < P_TERMS && VX_OFF(ps_current_it) < VX_OFF(ps_current_end_it)))

/* ---- the lexer as the driver sees it (replaced by contract).
   generated: what dfa_match guarantees (unit dfa) for an automaton none of whose terms matches the empty string;
   custom (C18): the weakest contract the README grants a use_lexer<L>: either a default-constructed result
   or (index < sizeof...(Terms), 1 <= len <= end - start).  On failure `len` is NOT constrained. ---- */
#define VX_LEXER_CONTRACT \
__CPROVER_requires(__CPROVER_same_object(start, g_buf) && __CPROVER_same_object(end, g_buf) && VX_OFF(start) < VX_OFF(end) && VX_OFF(end) <= g_len) \
__CPROVER_assigns(vx_lex_n, vx_lex_start, vx_lex_end, VX_EV) \
__CPROVER_ensures(VX_INC(vx_lex_n) && vx_lex_start == start && vx_lex_end == end) \
__CPROVER_ensures(__CPROVER_return_value.term_idx == uninitialized16 || (__CPROVER_return_value.term_idx < P_TERMS && __CPROVER_return_value.len >= 1 && __CPROVER_return_value.len <= VX_OFF(end) - VX_OFF(start))) \
__CPROVER_ensures(o.verbose ? vx_ev_n >= __CPROVER_old(vx_ev_n) : VX_EV_NONE)
struct recognized_term vx_lexer_generated(struct match_options o, struct source_point sp, const char* start, const char* end)
VX_LEXER_CONTRACT;
struct recognized_term vx_lexer_custom(struct match_options o, struct source_point sp, const char* start, const char* end)
VX_LEXER_CONTRACT;
/* reduce: the rule being reduced and its length */
#define VX_RI(a) (gi.rule_infos[a])

/* short NUL-terminated table handed to find_char by skip_whitespace (ghost description, checked at the call) */
const char* g_ws; size_t g_wn;
#define VX_WSTAB (g_wn < 8 && __CPROVER_r_ok(g_ws, g_wn + 1) && g_ws[g_wn] == 0 && __CPROVER_forall { size_t vq_ws; (vq_ws < 8) ==> (vq_ws < g_wn ==> g_ws[vq_ws] != 0) })

/* ================= driver loop: ghost snapshot at loop head and step relation (C02 C08 C09 C14) ================= */
struct cvec16 g_h_cs; struct cvecv g_h_vs; bool g_h_rec, g_h_con; const char *g_h_it, *g_h_end; unsigned g_h_ev, g_h_lex, g_h_tv, g_h_inv, g_h_err; vx_value g_h_next; size16_t g_h_term;
/* after get_current_term: */
size16_t g_t; const char *g_l_it, *g_l_end; unsigned g_l_ev; unsigned long g_l_sp; bool g_have_t;
#define VX_SNAP_HEAD() do { g_h_cs = ps_cursor_stack; g_h_vs = ps_value_stack; g_h_rec = ps_recovery_mode; g_h_con = ps_consume_mode; g_h_it = ps_current_it; g_h_end = ps_current_end_it; \
   g_h_ev = vx_ev_n; g_h_lex = vx_lex_n; g_h_tv = vx_tv_n; g_h_inv = vx_inv_n; g_h_err = vx_ev_err_n; g_h_next = vx_next_id; g_h_term = ps_current_term_idx; g_have_t = 0; \
   __CPROVER_assume(vx_next_id < 0xfffffff0u); /* ghost id counter does not wrap: fewer than 2^32 semantic values per parse */ } while (0)
#define VX_SNAP_LEX() do { g_t = g_h_rec ? (size16_t)error_recovery_token_idx : ps_current_term_idx; g_l_it = ps_current_it; g_l_end = ps_current_end_it; g_l_ev = vx_ev_n; g_l_sp = VX_SPCODE(ps_current_sp); g_have_t = 1; } while (0)
/* the table entry the specification says governs this iteration: row = state on top at loop head, column = the term presented */
#define VX_HTOP (g_h_cs.the_data[g_h_cs.current_size - 1])
#define VX_HE (parse_table[VX_HTOP][VX_COL(g_t)])
#define VX_A(c, txt) __CPROVER_assert(c, txt)
#define VX_STACKS_UNCHANGED (VX_CS.current_size == g_h_cs.current_size && VX_VS.current_size == g_h_vs.current_size && \
   __CPROVER_forall { size_t vq_su; (vq_su < VX_CAP) ==> ((vq_su < g_h_cs.current_size ==> VX_CS.the_data[vq_su] == g_h_cs.the_data[vq_su]) && (vq_su < g_h_vs.current_size ==> VX_VS.the_data[vq_su] == g_h_vs.the_data[vq_su])) })
#define VX_BELOW_UNCHANGED(nc, nv) (__CPROVER_forall { size_t vq_bu; (vq_bu < VX_CAP) ==> ((vq_bu < (nc) ==> VX_CS.the_data[vq_bu] == g_h_cs.the_data[vq_bu]) && (vq_bu < (nv) ==> VX_VS.the_data[vq_bu] == g_h_vs.the_data[vq_bu])) })

/* C06/C12 stack/capacity: checked, then assumed, so that what follows is not reported a second time.
   On the unchanged tree this obligation FAILS for fixed-size stacks (known finding D8). */
#define VX_CAPACITY(c) do { __CPROVER_assert(c, "stack/capacity: the fixed-size stacks (N + EmptyRulesCount + 1) have room for this push"); __CPROVER_assume(c); } while (0)
/* checked at every `continue` and at the end of the loop body */
void vx_step(void)
{
  VX_A(g_have_t && g_t != uninitialized16 && g_t < term_count, "driver/step: a term was presented");
  uint8_t k = VX_HE.kind; size16_t arg = VX_HE.arg;
  if (k == parse_table_entry_kind__error) {
    if (g_h_con) {
      /* C08 consume: while discarding input, a term the parser cannot act on is discarded (and nothing else happens) */
      VX_A(g_t != eof_idx, "consume: end of input while discarding ends the parse");
      VX_A(ps_current_it == g_l_end && ps_current_end_it == g_l_end, "consume: exactly the pending term is discarded");
      VX_A(VX_STACKS_UNCHANGED, "consume: stacks untouched while discarding input");
      VX_A(ps_consume_mode && !ps_recovery_mode, "consume: mode unchanged");
      VX_A(ps_options.verbose || vx_ev_n == g_l_ev, "consume: silent when not verbose");
      VX_A(vx_tv_n == g_h_tv && vx_inv_n == g_h_inv, "consume: no functor runs");
    } else if (!g_h_rec) {
      /* C08 enter: error detected outside recovery */
      VX_A(ps_options.verbose || (g_l_ev < 1000 ==> vx_ev_n == g_l_ev + 1), "recovery/enter: exactly one message for the error");
      VX_A(ps_options.verbose || (vx_ev_kind == EV_PARSE_Syntax_error && vx_ev_a0 == g_l_sp && vx_ev_a1 == (unsigned long)term_names[g_t]), "recovery/enter: 'Syntax error' with the position and name of the offending term");
      VX_A(ps_recovery_mode && !ps_consume_mode, "recovery/enter: recovery mode entered");
      VX_A(VX_CS.current_size == g_h_cs.current_size, "recovery/enter: no state is discarded before the current top has been offered the error symbol");
      VX_A(VX_STACKS_UNCHANGED, "recovery/enter: values of states that are not discarded are kept");
      VX_A(ps_current_it == g_l_it && ps_current_end_it == g_l_end, "recovery/enter: the offending term stays pending");
      VX_A(vx_tv_n == g_h_tv && vx_inv_n == g_h_inv, "recovery/enter: no functor runs");
    } else {
      /* C08 pop: the top cannot accept the error symbol */
      VX_A(VX_CS.current_size + 1 == g_h_cs.current_size && VX_VS.current_size == (g_h_vs.current_size == 0 ? 0 : g_h_vs.current_size - 1), "recovery/pop: exactly one state (and its value) discarded");
      VX_A(VX_BELOW_UNCHANGED(VX_CS.current_size, VX_VS.current_size), "recovery/pop: values of states that are not discarded are kept");
      VX_A(ps_recovery_mode && !ps_consume_mode, "recovery/pop: still recovering");
      VX_A(ps_options.verbose || vx_ev_n == g_l_ev, "recovery/pop: silent when not verbose");
      VX_A(ps_current_it == g_l_it && ps_current_end_it == g_l_end, "recovery/pop: input untouched");
      VX_A(vx_tv_n == g_h_tv && vx_inv_n == g_h_inv, "recovery/pop: no functor runs");
    }
    return;
  }
  /* an actionable entry: executed in this very iteration, consume mode left */
  VX_A(ps_options.verbose || vx_ev_n == g_l_ev, "driver/step: a normal action writes nothing when not verbose");
  if (k == parse_table_entry_kind__shift) {
    VX_A(!g_h_rec && !ps_recovery_mode && !ps_consume_mode, "driver/shift: not recovering; consume mode left");
    VX_A(VX_CS.current_size == g_h_cs.current_size + 1 && VX_CS.the_data[VX_CS.current_size - 1] == arg, "driver/shift: the entry's target state is pushed");
    VX_A(VX_VS.current_size == g_h_vs.current_size + 1 && VX_BELOW_UNCHANGED(g_h_cs.current_size, g_h_vs.current_size), "driver/shift: one value pushed, the rest kept");
    VX_A((g_h_tv < 1000 ==> vx_tv_n == g_h_tv + 1) && vx_inv_n == g_h_inv, "driver/shift: exactly one term functor call, no rule functor");
    VX_A(vx_tv_term == g_t && vx_tv_p == g_l_it && vx_tv_len == (size_t)(g_l_end - g_l_it) && vx_tv_sp == g_l_sp && VX_VS.the_data[VX_VS.current_size - 1] == vx_tv_id,
         "driver/shift: the value is the term's own functor applied to exactly the pending lexeme, with the source point of its first byte");
    VX_A(ps_current_it == g_l_end && ps_current_end_it == g_l_end, "driver/shift: the lexeme is consumed");
  } else if (k == parse_table_entry_kind__shift_error_recovery_token) {
    VX_A(g_h_rec, "recovery/shift: only while recovering");
    VX_A(VX_CS.current_size == g_h_cs.current_size + 1 && VX_CS.the_data[VX_CS.current_size - 1] == arg, "recovery/shift: the error symbol is shifted from the topmost state that accepts it");
    VX_A(VX_VS.current_size == g_h_vs.current_size + 1 && VX_BELOW_UNCHANGED(g_h_cs.current_size, g_h_vs.current_size), "recovery/shift: values of states that are not discarded are kept");
    VX_A((g_h_err < 1000 ==> vx_ev_err_n == g_h_err + 1) && vx_ev_err_sp == g_l_sp && vx_tv_n == g_h_tv && vx_inv_n == g_h_inv, "recovery/shift: the error value carries the current source point; no functor runs");
    VX_A(!ps_recovery_mode && ps_consume_mode, "recovery/shift: recovery left, input discarding entered");
    VX_A(ps_current_it == g_l_it && ps_current_end_it == g_l_end, "recovery/shift: input untouched");
  } else if (k == parse_table_entry_kind__reduce || k == parse_table_entry_kind__rr_conflict) {
    size16_t n = gi.rule_infos[arg].r_elements;
    VX_A(!ps_consume_mode && ps_recovery_mode == g_h_rec, "driver/reduce: consume mode left, recovery unchanged");
    VX_A(VX_CS.current_size + n == g_h_cs.current_size + 1 && VX_VS.current_size + n == g_h_vs.current_size + 1, "driver/reduce: pops r_elements states and values, pushes one of each");
    VX_A(VX_CS.the_data[VX_CS.current_size - 1] == parse_table[VX_CS.the_data[VX_CS.current_size - 2]][gi.rule_infos[arg].l_idx].arg, "driver/reduce: goto of the uncovered state on the rule's left side");
    VX_A(VX_BELOW_UNCHANGED(VX_CS.current_size - 1, VX_VS.current_size - 1), "driver/reduce: everything below the popped slice is kept");
    VX_A((g_h_inv < 1000 ==> vx_inv_n == g_h_inv + 1) && vx_tv_n == g_h_tv && vx_inv_rule == gi.rule_infos[arg].r_idx && vx_inv_len == n && VX_VS.the_data[VX_VS.current_size - 1] == vx_inv_id,
         "driver/reduce: exactly one call, of the functor of the rule the entry names; its result is pushed");
    VX_A(__CPROVER_forall { size_t vq_ra; (vq_ra < PH_MAXLEN) ==> (vq_ra < n ==> vx_inv_arg[vq_ra] == g_h_vs.the_data[g_h_vs.current_size - n + vq_ra]) }, "driver/reduce: the functor receives the popped values in right-side order");
    VX_A(ps_current_it == g_l_it && ps_current_end_it == g_l_end, "driver/reduce: input untouched");
  } else {
    VX_A(0, "driver/step: success and unknown kinds do not continue the loop");
  }
}

/* checked at every `break` */
void vx_exit(struct vx_opt root_value)
{
  if (!g_have_t || g_t == uninitialized16) {
    /* lexical failure */
    VX_A(g_have_t && !g_h_rec && VX_OFF(g_h_it) == VX_OFF(g_h_end), "exit/lexical: only when a new term was needed");
    VX_A(!root_value.has, "exit/lexical: no value");
    VX_A(ps_options.verbose || ((g_h_ev < 1000 ==> vx_ev_n == g_h_ev + 1) && vx_ev_kind == EV_PARSE_Unexpected_character), "exit/lexical: exactly one 'Unexpected character' report");
    VX_A(VX_STACKS_UNCHANGED && vx_tv_n == g_h_tv && vx_inv_n == g_h_inv, "exit/lexical: nothing else happens");
    return;
  }
  uint8_t k = VX_HE.kind;
  if (k == parse_table_entry_kind__error) {
    VX_A(!root_value.has, "exit/error: no value");
    if (g_h_con) {
      VX_A(g_t == eof_idx, "consume: the parse is abandoned only at end of input");
      VX_A(ps_options.verbose || vx_ev_n == g_l_ev, "consume: silent when not verbose");
    } else {
      VX_A(g_h_rec, "recovery/enter: no state is discarded before the current top has been offered the error symbol (exit)");
      VX_A(VX_CS.current_size == 0 && g_h_cs.current_size == 1, "recovery/pop: recovery fails exactly when the last state has been discarded");
    }
    VX_A(vx_tv_n == g_h_tv && vx_inv_n == g_h_inv, "exit/error: no functor runs");
    return;
  }
  VX_A(k == parse_table_entry_kind__success, "exit/success: the loop ends otherwise only on a success entry");
  VX_A(root_value.has && root_value.v == g_h_vs.the_data[0] && VX_STACKS_UNCHANGED, "exit/success: the result is the bottom of the value stack");
  VX_A(vx_tv_n == g_h_tv && vx_inv_n == g_h_inv, "exit/success: no functor runs");
  VX_A(ps_options.verbose || vx_ev_n == g_l_ev, "exit/success: silent when not verbose");
}

/* the loop invariant, conjunct by conjunct (diagnostics: names which part a change breaks) */
void vx_inv_parts(void)
{
  VX_A(VX_WF_STACKS && VX_CS.current_size >= 1 && VX_VS.current_size + 1 == VX_CS.current_size, "stack/sync: one value per state above the initial state");
  VX_A(VX_CS_RANGE, "stack/range: every state on the stack is a state of the table");
  VX_A(VX_VS_LINEAR, "ids/linear: value ids on the stack are pairwise distinct and never reused");
  VX_A(VX_WF_BUF, "buffer: position and pending lexeme inside the caller's buffer");
  VX_A(VX_SP_OK && VX_SP_MIRROR && g_pos == ps_current_it, "sp/contiguity: the source point describes the first byte of the pending term");
  VX_A(VX_PENDING_OK, "pending: the pending term is a term of the grammar or eof");
  VX_A(!(ps_recovery_mode && ps_consume_mode), "modes: recovery and consume mode exclude each other");
  VX_A((!ps_options.verbose && g_noerr) ==> (vx_ev_n == (ps_recovery_mode ? 1 : 0) && !ps_consume_mode && (ps_recovery_mode ==> vx_ev_kind == EV_PARSE_Syntax_error)), "driver/messages: without error rules and not verbose, nothing is written until the one error message");
}
