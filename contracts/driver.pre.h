/* ---- predicates used by the driver contracts ---- */
#define VX_SHIFTK(k) ((k) == parse_table_entry_kind__shift || (k) == parse_table_entry_kind__shift_error_recovery_token)
#define VX_REDK(k)   ((k) == parse_table_entry_kind__reduce || (k) == parse_table_entry_kind__rr_conflict)
#define VX_CELL_OK(e) ((e).kind <= parse_table_entry_kind__rr_conflict && (VX_SHIFTK((e).kind) ==> (e).arg < state_count) && (VX_REDK((e).kind) ==> (e).arg < rule_count))
#define VX_WF_TABLE (VX_PARAMS_OK && state_count >= 1 && state_count <= state_count_cap && \
    __CPROVER_forall { size_t vq_tab; (vq_tab < PH_STATES * PH_SYMS) ==> VX_CELL_OK(parse_table[vq_tab / PH_SYMS][vq_tab % PH_SYMS]) })
#define VX_RULE_OK(r) ((r).l_idx < nterm_count && (r).r_idx < rule_count && (r).r_elements <= max_rule_element_count && (r).r_elements == vx_rule_len[(r).r_idx])
#define VX_WF_GI (__CPROVER_forall { size_t vq_gi; (vq_gi < PH_RULES) ==> VX_RULE_OK(gi.rule_infos[vq_gi]) })
#define VX_CS ps_cursor_stack
#define VX_VS ps_value_stack
#define VX_WF_STACKS (VX_CS.N >= 1 && VX_CS.N <= VX_CAP && VX_CS.current_size <= VX_CS.N && VX_VS.N == VX_CS.N && VX_VS.current_size <= VX_VS.N)
#define VX_CS_RANGE (__CPROVER_forall { size_t vq_cs; (vq_cs < VX_CAP) ==> (vq_cs < VX_CS.current_size ==> VX_CS.the_data[vq_cs] < state_count) })
/* C14: ids on the value stack are pairwise distinct (strictly increasing) and older than the fresh-id counter */
#define VX_VS_LINEAR (__CPROVER_forall { size_t vq_vs; (vq_vs < VX_CAP) ==> (vq_vs < VX_VS.current_size ==> (VX_VS.the_data[vq_vs] < vx_next_id && (vq_vs >= 1 ==> VX_VS.the_data[vq_vs - 1] < VX_VS.the_data[vq_vs]))) })
#define VX_WF_BUF (__CPROVER_r_ok(g_buf, g_len + 1) && VX_OFF(g_buf) == 0 && g_len <= VX_MAXBUF && \
   __CPROVER_same_object(ps_current_it, g_buf) && __CPROVER_same_object(ps_current_end_it, g_buf) && __CPROVER_same_object(ps_buffer_end, g_buf) && \
   VX_OFF(ps_buffer_end) == g_len && VX_OFF(ps_current_it) <= g_len && VX_OFF(ps_current_end_it) <= g_len)
#define VX_SP_OK (ps_current_sp.line >= 1 && ps_current_sp.column >= 1 && ps_current_sp.line < 0x40000000u && ps_current_sp.column < 0x40000000u)
/* whitespace as documented: tab, LF, VT, FF, CR, space; LF only when skip_newline */
#define VX_IS_WS(c, nl) ((c) == 9 || (c) == 11 || (c) == 12 || (c) == 13 || (c) == 32 || ((nl) && (c) == 10))
/* frames */
#define VX_EV vx_ev_n, vx_ev_kind, vx_ev_a0, vx_ev_a1, vx_ev_a2
#define VX_UNCH_CS_BELOW(q, n) (__CPROVER_forall { size_t q; (q < VX_CAP) ==> (q < (n) ==> VX_CS.the_data[q] == __CPROVER_old(VX_CS).the_data[q]) })
#define VX_UNCH_VS_BELOW(q, n) (__CPROVER_forall { size_t q; (q < VX_CAP) ==> (q < (n) ==> VX_VS.the_data[q] == __CPROVER_old(VX_VS).the_data[q]) })

/* harness: every global gets an arbitrary value; the buffer is allocated */
void vx_havoc(void)
{
  size_t a, b, c, d, e, f, g, h; P_TERMS = a; P_NTERMS = b; P_RULES = c; P_MAXLEN = d; P_EMPTY = e; P_SUM_N1 = f; P_STATE_CAP = g; P_SIT_CAP = h;
  struct grammar_info tgi; gi = tgi;
  __CPROVER_havoc_object(parse_table);
  size16_t sc; state_count = sc;
  __CPROVER_havoc_object(term_names); __CPROVER_havoc_object(nterm_names); __CPROVER_havoc_object(vx_rule_len);
  bool gl; VX_GENERATE_LEXER = gl;
  struct cvec16 cs; ps_cursor_stack = cs; struct cvecv vs; ps_value_stack = vs;
  struct parse_options po; ps_options = po; struct source_point sp; ps_current_sp = sp;
  size16_t ti; ps_current_term_idx = ti; bool rm, cm; ps_recovery_mode = rm; ps_consume_mode = cm;
  size_t len; __CPROVER_assume(len <= VX_MAXBUF); g_len = len; g_buf = malloc(len + 1); __CPROVER_assume(g_buf);
  size_t o1, o2; __CPROVER_assume(o1 <= len && o2 <= len);
  ps_current_it = g_buf + o1; ps_current_end_it = g_buf + o2; ps_buffer_end = g_buf + len;
  const char* gp; g_pos = gp; size_t gk; g_k = gk;
  unsigned n1; vx_ev_n = n1; int k1; vx_ev_kind = k1; vx_value id; vx_next_id = id;
  unsigned n2, n3, n4, n5; vx_tv_n = n2; vx_inv_n = n3; vx_lex_n = n4; vx_ev_err_n = n5;
  unsigned l1, l2; g_sp_line = l1; g_sp_col = l2;
  vx_thrown = 0;
}

/* ---- event / state shorthand for contracts ---- */
#define VX_SPCODE(sp) ((((unsigned long)(sp).line) << 32) | (unsigned long)(sp).column)
#define VX_EV_NONE (vx_ev_n == __CPROVER_old(vx_ev_n) && vx_ev_kind == __CPROVER_old(vx_ev_kind) && vx_ev_a0 == __CPROVER_old(vx_ev_a0) && vx_ev_a1 == __CPROVER_old(vx_ev_a1) && vx_ev_a2 == __CPROVER_old(vx_ev_a2))
#define VX_EV_ONE(k) (vx_ev_n == __CPROVER_old(vx_ev_n) + 1 && vx_ev_kind == (k))
#define VX_EV_VERBOSE_ONLY(k) (ps_options.verbose ? VX_EV_ONE(k) : VX_EV_NONE)
#define VX_SP_MIRROR (g_sp_line == ps_current_sp.line && g_sp_col == ps_current_sp.column)
#undef VX_SP_OK
/* the position bookkeeping cannot overflow: both counters are bounded by 1 + bytes passed */
#define VX_SP_OK (ps_current_sp.line >= 1 && ps_current_sp.column >= 1 && __CPROVER_same_object(g_pos, g_buf) && ps_current_sp.line <= 1 + VX_OFF(g_pos) && ps_current_sp.column <= 1 + VX_OFF(g_pos) && VX_OFF(g_pos) <= g_len)
#define VX_BYTE(off) ((unsigned char)g_buf[off])
/* table facts beyond VX_CELL_OK that the driver relies on (established by state_analyzer::transitions):
   the eof column is never shifted, shift_error_recovery_token occurs exactly in the error-token column */
#define VX_COL(t) (nterm_count + (t))
#define VX_COLS_OK (__CPROVER_forall { size_t vq_cols; (vq_cols < PH_STATES) ==> ( \
      parse_table[vq_cols][VX_COL(eof_idx)].kind != parse_table_entry_kind__shift && parse_table[vq_cols][VX_COL(eof_idx)].kind != parse_table_entry_kind__shift_error_recovery_token \
   && parse_table[vq_cols][VX_COL(error_recovery_token_idx)].kind != parse_table_entry_kind__shift && parse_table[vq_cols][VX_COL(error_recovery_token_idx)].kind != parse_table_entry_kind__success) }) 
#define VX_NO_SERT_IN_TERM_COLS (__CPROVER_forall { size_t vq_nsert; (vq_nsert < PH_STATES * PH_TERMS) ==> ((vq_nsert % PH_TERMS) != error_recovery_token_idx && (vq_nsert % PH_TERMS) < term_count ==> parse_table[vq_nsert / PH_TERMS][VX_COL(vq_nsert % PH_TERMS)].kind != parse_table_entry_kind__shift_error_recovery_token) })
/* C09's hypothesis "without error rules": no state accepts the error symbol */
#define VX_NOERR (__CPROVER_forall { size_t vq_noerr; (vq_noerr < PH_STATES) ==> parse_table[vq_noerr][VX_COL(error_recovery_token_idx)].kind == parse_table_entry_kind__error })
#define VX_PENDING_OK (VX_OFF(ps_current_it) == VX_OFF(ps_current_end_it) || (ps_current_term_idx == eof_idx && VX_OFF(ps_current_it) == g_len) || (ps_current_term_idx < P_TERMS && VX_OFF(ps_current_it) < VX_OFF(ps_current_end_it)))

/* ---- the lexer as the driver sees it (replaced by contract).
   generated: what dfa_match guarantees (unit dfa) for an automaton none of whose terms matches the empty string;
   custom (C18): the weakest contract the README grants a use_lexer<L>: either a default-constructed result
   or (index < sizeof...(Terms), 1 <= len <= end - start).  On failure `len` is NOT constrained. ---- */
#define VX_LEXER_CONTRACT \
__CPROVER_requires(__CPROVER_same_object(start, g_buf) && __CPROVER_same_object(end, g_buf) && VX_OFF(start) < VX_OFF(end) && VX_OFF(end) <= g_len && vx_lex_n < 900) \
__CPROVER_assigns(vx_lex_n, vx_lex_start, vx_lex_end, VX_EV) \
__CPROVER_ensures(vx_lex_n == __CPROVER_old(vx_lex_n) + 1 && vx_lex_start == start && vx_lex_end == end) \
__CPROVER_ensures(__CPROVER_return_value.term_idx == uninitialized16 || (__CPROVER_return_value.term_idx < P_TERMS && __CPROVER_return_value.len >= 1 && __CPROVER_return_value.len <= VX_OFF(end) - VX_OFF(start))) \
__CPROVER_ensures(o.verbose ? vx_ev_n >= __CPROVER_old(vx_ev_n) : VX_EV_NONE)
struct recognized_term vx_lexer_generated(struct match_options o, struct source_point sp, const char* start, const char* end)
VX_LEXER_CONTRACT;
struct recognized_term vx_lexer_custom(struct match_options o, struct source_point sp, const char* start, const char* end)
VX_LEXER_CONTRACT;
/* reduce: the rule being reduced and its length */
#define VX_RI(a) (gi.rule_infos[a])
