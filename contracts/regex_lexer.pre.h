#define VX_BYTE(off) ((unsigned char)g_buf[off])
#define VX_PRINTABLE(c) ((unsigned char)(c) >= 0x20 && (unsigned char)(c) <= 0x7e)
#define VX_HEX(c) (((c) >= 48 && (c) <= 57) || ((c) >= 97 && (c) <= 102) || ((c) >= 65 && (c) <= 70))
/* the pattern: g_len bytes followed by the terminator, scanned from `start` to end == g_buf + g_len */
#define VX_PAT (__CPROVER_r_ok(g_buf, g_len + 1) && VX_OFF(g_buf) == 0 && g_len <= VX_MAXBUF && g_buf[g_len] == 0 && __CPROVER_same_object(start, g_buf) && __CPROVER_same_object(end, g_buf) && VX_OFF(end) == g_len && VX_OFF(start) < VX_OFF(end))
#define VX_REST (VX_OFF(end) - VX_OFF(start))
#define VX_SPECIALS_OK (rl_specials[42] == 2 && rl_specials[43] == 3 && rl_specials[63] == 4 && rl_specials[124] == 5 && rl_specials[40] == 6 && rl_specials[41] == 7 && rl_specials[123] == 8 && rl_specials[125] == 9 \
   && __CPROVER_forall { size_t vq_sp; (vq_sp < 256) ==> (rl_specials[vq_sp] <= 9 && rl_specials[vq_sp] != 1 && (rl_specials[vq_sp] != 0 ==> (vq_sp == 42 || vq_sp == 43 || vq_sp == 63 || vq_sp == 124 || vq_sp == 40 || vq_sp == 41 || vq_sp == 123 || vq_sp == 125))) })
void vx_havoc(void)
{
  size_t len; __CPROVER_assume(len <= VX_MAXBUF); g_len = len; g_buf = malloc(len + 1); __CPROVER_assume(g_buf);
  size_t k; g_k = k; __CPROVER_havoc_object(rl_specials); unsigned n; vx_ev_n = n; vx_thrown = 0;
}
