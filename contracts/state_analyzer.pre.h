/* R14: the comparison lambda of analyze_rules, body taken from the real text (VX_SORT_PRED_BODY) */
#define VX_SORT_PRED(a, b) vx_sort_pred(&(a), &(b))
static inline bool vx_sort_pred(const struct rule_info* p1, const struct rule_info* p2) { struct rule_info ri1 = *p1, ri2 = *p2; return VX_SORT_PRED_BODY; }
#define VX_RULE_OK(r) ((r).l_idx < nterm_count && (r).r_idx < rule_count && (r).r_elements <= max_rule_element_count)
#define VX_WF_GI (VX_PARAMS_OK && __CPROVER_forall { size_t vq_gi; (vq_gi < PH_RULES) ==> (vq_gi < rule_count ==> VX_RULE_OK(gi.rule_infos[vq_gi])) })
size32_t g_it_idx; size16_t g_it_ri, g_it_after, g_it_t;
void vx_havoc(void)
{
  size_t a, b, c, d, e, f, g, h; P_TERMS = a; P_NTERMS = b; P_RULES = c; P_MAXLEN = d; P_EMPTY = e; P_SUM_N1 = f; P_STATE_CAP = g; P_SIT_CAP = h;
  struct grammar_info tgi; gi = tgi;
  __CPROVER_havoc_object(parse_table); __CPROVER_havoc_object(simple_states); __CPROVER_havoc_object(states__all_situations_vec); __CPROVER_havoc_object(states__kernel); __CPROVER_havoc_object(states__situations_by_symbol); __CPROVER_havoc_object(closures);
  __CPROVER_havoc_object(right_side_slice_first); __CPROVER_havoc_object(nterm_first);
  struct cbitset b1, b2, b3, b4, b5, b6, b7; closures_analyzed = b1; right_side_slice_empty_analyzed = b2; right_side_slice_empty = b3; right_side_slice_first_analyzed = b4;
  nterm_empty = b5; nterm_empty_analyzed = b6; nterm_first_analyzed = b7;
  size32_t ii; size16_t i1, i2, i3; g_it_idx = ii; g_it_ri = i1; g_it_after = i2; g_it_t = i3;
  size16_t sc; state_count = sc; size_t k, j, y; g_k = k; g_j = j; g_y = y; vx_thrown = 0;
}
/* ---- item sets ---- */
#define VX_SV_WF(v) ((v).N == max_sit_count_per_state_cap && (v).N >= 1 && (v).N <= VX_CAP && (v).current_size <= (v).N)
#define VX_BS_WF(b, n) ((b).N == (n) && (b).N >= 1 && (b).N <= CB_WORDS * 64)
#define VX_BIT(b, i) (((b).data[(i) / 64] >> ((i) % 64)) & 1)
#define VX_SAS_OK (VX_PARAMS_OK && situation_address_space_size <= PH_SAS && situation_size * rule_count <= PH_RSS && max_sit_count_per_state_cap >= 1 && max_sit_count_per_state_cap <= VX_CAP)
/* symbols of the right sides are declared symbols */
#define VX_SYMS_OK (__CPROVER_forall { size_t vq_sym; (vq_sym < PH_RULES * PH_MAXLEN) ==> (gi.right_sides[vq_sym / PH_MAXLEN][vq_sym % PH_MAXLEN].term ? gi.right_sides[vq_sym / PH_MAXLEN][vq_sym % PH_MAXLEN].idx < term_count : gi.right_sides[vq_sym / PH_MAXLEN][vq_sym % PH_MAXLEN].idx < nterm_count) })
/* the bucket an item belongs to: the symbol after the dot, or the look-ahead term when the item is complete (specification's own expression) */
/* ghost decode of one item index (no div/mod in the callers' proofs): g_it_idx encodes (g_it_ri, g_it_after, g_it_t);
   make_situation_info is proved to return exactly this triple for g_it_idx (uniqueness of the mixed-radix code is discharged there) */
#define VX_GHOST_ITEM_OK (g_it_ri < rule_count && g_it_after < situation_size && g_it_t < term_count && \
   (size_t)g_it_ri * situation_size * term_count + (size_t)g_it_after * term_count + g_it_t == g_it_idx && g_it_idx < situation_address_space_size)
#define VX_ITEM_RI (gi.rule_infos[g_it_ri])
#define VX_ITEM_COMPLETE (g_it_after >= VX_ITEM_RI.r_elements)
#define VX_ITEM_SYM (gi.right_sides[VX_ITEM_RI.r_idx][g_it_after])
#define VX_ITEM_BUCKET (VX_ITEM_COMPLETE ? nterm_count + g_it_t : (VX_ITEM_SYM.term ? nterm_count + VX_ITEM_SYM.idx : VX_ITEM_SYM.idx))
#define VX_STATE_WF(s) (VX_SV_WF(states__all_situations_vec[s]) && VX_BS_WF(states__kernel[s], situation_address_space_size) && VX_BS_WF(simple_states[s], situation_address_space_size) && \
   __CPROVER_forall { size_t vq_swf; (vq_swf < PH_SYMS) ==> VX_SV_WF(states__situations_by_symbol[s][vq_swf]) })
/* ---- transitions(): ghost record of the conflict decision ---- */
unsigned g_sc_n; size16_t g_sc_rule, g_sc_term; uint8_t g_sc_res; unsigned g_red_n;   /* ghost: reductions (other than the root rule) seen in the bucket */
#define VX_SC_SPEC(r, t) ((gi.rule_precedences[gi.rule_infos[r].r_idx] > gi.term_precedences[t] || (gi.rule_precedences[gi.rule_infos[r].r_idx] == gi.term_precedences[t] && gi.rule_associativities[gi.rule_infos[r].r_idx] == associativity__ltor)) ? parse_table_entry_kind__reduce : parse_table_entry_kind__shift)
/* add_situation as transitions() uses it for the kernel of the target state: any in-range item into an in-range state
   (abstract stand-in; add_situation's own contract is stated for one ghost-decoded item) */
bool vx_add_situation_any(size16_t state_idx, size32_t sit_idx, bool to_kernel)
__CPROVER_requires(state_idx < state_count_cap && state_idx < state_count && sit_idx < situation_address_space_size)
__CPROVER_assigns(vx_thrown, simple_states[state_idx], states__all_situations_vec[state_idx], states__kernel[state_idx], __CPROVER_object_upto(&states__situations_by_symbol[state_idx][0], sizeof(states__situations_by_symbol[0])))
/* what add_situation/post gives for the item set: the item is in it afterwards and nothing is ever removed */
__CPROVER_ensures(vx_thrown == 0 && simple_states[state_idx].N == __CPROVER_old(simple_states[state_idx]).N && VX_BIT(simple_states[state_idx], sit_idx) == 1
   && __CPROVER_forall { size_t vq_aa; (vq_aa < CB_WORDS) ==> ((simple_states[state_idx].data[vq_aa] & __CPROVER_old(simple_states[state_idx]).data[vq_aa]) == __CPROVER_old(simple_states[state_idx]).data[vq_aa]) });

/* ---- closure(): FIRST / nullable of the rest of the right side, as the (memoising) analysis functions return them.
   They are abstract here: closure must generate exactly what they dictate (their own correctness is a separate matter, finding D4) ---- */
bool g_sp_empty; struct cbitset g_sp_first; size_t g_ci, g_ct;
bool vx_rss_empty(const struct rule_info* ri, size_t start)
__CPROVER_requires(__CPROVER_r_ok(ri, sizeof(*ri)) && start <= max_rule_element_count)
__CPROVER_assigns()
__CPROVER_ensures(__CPROVER_return_value == g_sp_empty);
const struct cbitset* vx_rss_first(const struct rule_info* ri, size_t start) { __CPROVER_assert(start <= max_rule_element_count, "make_right_side_slice_first: start within the right side"); return &g_sp_first; }
#define C_RI (gi.rule_infos[g_it_ri])
#define C_INCOMPLETE (g_it_after < C_RI.r_elements)
#define C_SYM (gi.right_sides[C_RI.r_idx][g_it_after])
#define C_SL (gi.nterm_rule_slices[C_SYM.idx])
/* closure is verified for ANY item encoding: make_situation_idx is replaced by a lookup in an arbitrary ghost table (no multiplication in the proof);
   that the real encoding is a dense injective code is make_situation_idx/post + make_situation_info/post */
size32_t g_enc[PH_RULES][PH_MAXLEN + 1][PH_TERMS];
size32_t vx_enc(struct situation_info info)
__CPROVER_requires(info.rule_info_idx < rule_count && info.after < situation_size && info.t < term_count)
__CPROVER_assigns()
__CPROVER_ensures(__CPROVER_return_value == g_enc[info.rule_info_idx][info.after][info.t] && __CPROVER_return_value < situation_address_space_size);
#define C_ENC_OK (__CPROVER_forall { size_t vq_enc; (vq_enc < PH_RULES * (PH_MAXLEN + 1) * PH_TERMS) ==> g_enc[vq_enc / ((PH_MAXLEN + 1) * PH_TERMS)][(vq_enc / PH_TERMS) % (PH_MAXLEN + 1)][vq_enc % PH_TERMS] < situation_address_space_size })
#define C_ITEM(i, t) (g_enc[C_SL.start + (i)][0][t])
#define C_GEN(t) (VX_BIT(g_sp_first, t) == 1 || (g_sp_empty && (t) == g_it_t))
#define C_CNT(t) ((size_t)(0 < (t) && VX_BIT(g_sp_first, 0)) + (size_t)(1 < (t) && VX_BIT(g_sp_first, 1)) + (size_t)(2 < (t) && VX_BIT(g_sp_first, 2)) + (size_t)(3 < (t) && VX_BIT(g_sp_first, 3)))
#define C_CL (closures[sit_idx])
#define C_IN_CL(x) (__CPROVER_exists { size_t vq_ex; (vq_ex < VX_CAP) && (vq_ex < C_CL.current_size && C_CL.the_data[vq_ex] == (x)) })
/* ---- FIRST / nullable: the four memoised functions call each other; each is verified against what the OTHER three return
   (ghost tables; that the tables are the least fixed point is not claimed here - finding D4) ---- */
bool g_spn[PH_NTERMS]; struct cbitset g_spf[PH_NTERMS]; bool g_sre[PH_RULES]; struct cbitset g_srf[PH_RULES]; size_t g_t;
#define FN_TABS_OK (__CPROVER_forall { size_t vq_ft; (vq_ft < PH_NTERMS) ==> VX_BS_WF(g_spf[vq_ft], term_count) } && __CPROVER_forall { size_t vq_fu; (vq_fu < PH_RULES) ==> VX_BS_WF(g_srf[vq_fu], term_count) })
#define FN_RI_OK(ri) (__CPROVER_same_object(ri, &gi) && (ri) >= &gi.rule_infos[0] && (size_t)((ri) - &gi.rule_infos[0]) < rule_count && (ri) == &gi.rule_infos[(ri) - &gi.rule_infos[0]])
/* abstract callees that return a reference are ghost functions WITH a body (inlined): cbmc does not track a pointer that a replaced
   contract returns (its dereference yields an arbitrary object), see DESIGN.md 0.4 */
const struct cbitset* vx_nterm_first(size16_t nt) { __CPROVER_assert(nt < nterm_count, "make_nterm_first: nonterminal index in range"); return &g_spf[nt]; }
bool vx_nterm_empty(size16_t nt)
__CPROVER_requires(nt < nterm_count) __CPROVER_assigns() __CPROVER_ensures(__CPROVER_return_value == g_spn[nt]);
const struct cbitset* vx_rss_first0(const struct rule_info* ri, size_t start) { __CPROVER_assert(FN_RI_OK(ri) && start == 0, "make_right_side_slice_first: rule of the grammar, from its first symbol"); return &g_srf[ri - &gi.rule_infos[0]]; }
bool vx_rs_empty0(const struct rule_info* ri)
__CPROVER_requires(FN_RI_OK(ri)) __CPROVER_assigns() __CPROVER_ensures(__CPROVER_return_value == g_sre[ri - &gi.rule_infos[0]]);
/* specification of FIRST / nullable of the slice [start, r_elements) of rule ri for right sides of at most 2 symbols (PH_MAXLEN == 2) */
#define FS_SYM(ri, i) (gi.right_sides[(ri)->r_idx][i])
#define FS_PASS(ri, i) (!FS_SYM(ri, i).term && g_spn[FS_SYM(ri, i).idx])
#define FS_CONTRIB(ri, i) (FS_SYM(ri, i).term ? FS_SYM(ri, i).idx == g_t : VX_BIT(g_spf[FS_SYM(ri, i).idx], g_t) == 1)
#define FS_FIRST(ri, st, upto) (((st) < (upto) && (st) < PH_MAXLEN && FS_CONTRIB(ri, st)) || ((st) + 1 < (upto) && (st) + 1 < PH_MAXLEN && FS_PASS(ri, st) && FS_CONTRIB(ri, (st) + 1)))
#define FS_NULLABLE(ri, st, upto) (((st) < (upto) && (st) < PH_MAXLEN ? FS_PASS(ri, st) : 1) && ((st) + 1 < (upto) && (st) + 1 < PH_MAXLEN ? FS_PASS(ri, (st) + 1) : 1))
#define VX_BS_EMPTY(b) (__CPROVER_forall { size_t vq_be; (vq_be < CB_WORDS) ==> (b).data[vq_be] == 0 })
/* ---- analyze_states(): the work-list loop; closure / transitions / add_situation are abstract (each is under its own contract):
   they may grow item lists and add states, never shrink or rewrite them; ghost flags record that they were called for the
   ghost-chosen state g_s, list position g_i (item value g_item) and symbol g_y ---- */
size_t g_s, g_i, g_y2; size32_t g_item; bool g_cl_hit, g_tr_hit, g_root_added, g_done_ok; size32_t g_root_item;
#define AS_GROW(st) (states__all_situations_vec[st].N == __CPROVER_old(states__all_situations_vec[st]).N && states__all_situations_vec[st].current_size >= __CPROVER_old(states__all_situations_vec[st]).current_size \
   && states__all_situations_vec[st].current_size <= states__all_situations_vec[st].N \
   && __CPROVER_forall { size_t vq_ag; (vq_ag < VX_CAP) ==> (vq_ag < __CPROVER_old(states__all_situations_vec[st]).current_size ==> states__all_situations_vec[st].the_data[vq_ag] == __CPROVER_old(states__all_situations_vec[st]).the_data[vq_ag]) })
#define AS_ITEMS_OK(st) (VX_SV_WF(states__all_situations_vec[st]) && __CPROVER_forall { size_t vq_ai; (vq_ai < VX_CAP) ==> (vq_ai < states__all_situations_vec[st].current_size ==> states__all_situations_vec[st].the_data[vq_ai] < situation_address_space_size) })
void vx_closure_any(size16_t state_idx, size32_t sit_idx)
__CPROVER_requires(state_idx < state_count && state_count <= state_count_cap && sit_idx < situation_address_space_size && AS_ITEMS_OK(state_idx))
__CPROVER_assigns(g_cl_hit, states__all_situations_vec[state_idx])
__CPROVER_ensures(AS_GROW(state_idx) && AS_ITEMS_OK(state_idx) && g_cl_hit == (__CPROVER_old(g_cl_hit) || (state_idx == g_s && sit_idx == g_item)));
void vx_transitions_any(size16_t state_idx, size16_t symbol_idx, const struct sitvec* symbol_situations)
__CPROVER_requires(state_idx < state_count && state_count >= 1 && state_count <= state_count_cap && symbol_idx < symbol_count && symbol_situations == &states__situations_by_symbol[state_idx][symbol_idx]
   && __CPROVER_forall { size_t vq_t0; (vq_t0 < PH_STATES) ==> (vq_t0 < state_count ==> AS_ITEMS_OK(vq_t0)) })
__CPROVER_assigns(g_tr_hit, state_count, __CPROVER_object_whole(states__all_situations_vec))
/* may add a state (then its kernel items are listed); lists of existing states only grow */
__CPROVER_ensures(state_count >= __CPROVER_old(state_count) && state_count <= state_count_cap && g_tr_hit == (__CPROVER_old(g_tr_hit) || (state_idx == g_s && symbol_idx == g_y2))
   && __CPROVER_forall { size_t vq_t1; (vq_t1 < PH_STATES) ==> (vq_t1 < state_count ==> AS_ITEMS_OK(vq_t1)) }
   && (g_s < __CPROVER_old(state_count) ==> AS_GROW(g_s)));
bool vx_add_situation_root(size16_t state_idx, size32_t sit_idx, bool to_kernel)
__CPROVER_requires(state_idx < state_count && sit_idx < situation_address_space_size && states__all_situations_vec[state_idx].current_size == 0 && states__all_situations_vec[state_idx].N == max_sit_count_per_state_cap)
__CPROVER_assigns(g_root_added, g_root_item, states__all_situations_vec[state_idx])
__CPROVER_ensures(g_root_added && g_root_item == sit_idx && to_kernel && states__all_situations_vec[state_idx].current_size == 1 && states__all_situations_vec[state_idx].the_data[0] == sit_idx && states__all_situations_vec[state_idx].N == __CPROVER_old(states__all_situations_vec[state_idx]).N);

/* make_right_side_empty: the whole right side is the slice from 0 -- ghost record of the one call of make_right_side_slice_empty */
unsigned g_sle_calls; const struct rule_info* g_sle_ri; size_t g_sle_start; bool g_sle_ret;
static inline bool vx_slice_empty_rec(const struct rule_info* ri, size_t start) { if (g_sle_calls < 1000) g_sle_calls++; g_sle_ri = ri; g_sle_start = start; return g_sle_ret; }
