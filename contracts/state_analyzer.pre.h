/* R14: the comparison lambda of analyze_rules, body taken from the real text (VX_SORT_PRED_BODY) */
#define VX_SORT_PRED(a, b) vx_sort_pred(&(a), &(b))
static inline bool vx_sort_pred(const struct rule_info* p1, const struct rule_info* p2) { struct rule_info ri1 = *p1, ri2 = *p2; return VX_SORT_PRED_BODY; }
#define VX_RULE_OK(r) ((r).l_idx < nterm_count && (r).r_idx < rule_count && (r).r_elements <= max_rule_element_count)
#define VX_WF_GI (VX_PARAMS_OK && __CPROVER_forall { size_t vq_gi; (vq_gi < PH_RULES) ==> (vq_gi < rule_count ==> VX_RULE_OK(gi.rule_infos[vq_gi])) })
void vx_havoc(void)
{
  size_t a, b, c, d, e, f, g, h; P_TERMS = a; P_NTERMS = b; P_RULES = c; P_MAXLEN = d; P_EMPTY = e; P_SUM_N1 = f; P_STATE_CAP = g; P_SIT_CAP = h;
  struct grammar_info tgi; gi = tgi;
  __CPROVER_havoc_object(parse_table); __CPROVER_havoc_object(simple_states); __CPROVER_havoc_object(states); __CPROVER_havoc_object(closures);
  __CPROVER_havoc_object(right_side_slice_first); __CPROVER_havoc_object(nterm_first);
  struct cbitset b1, b2, b3, b4, b5, b6, b7; closures_analyzed = b1; right_side_slice_empty_analyzed = b2; right_side_slice_empty = b3; right_side_slice_first_analyzed = b4;
  nterm_empty = b5; nterm_empty_analyzed = b6; nterm_first_analyzed = b7;
  size16_t sc; state_count = sc; size_t k, j, y; g_k = k; g_j = j; g_y = y; vx_thrown = 0;
}
