#define VX_SHIFTK(k) ((k) == parse_table_entry_kind__shift || (k) == parse_table_entry_kind__shift_error_recovery_token)
#define VX_CELL_OK(e) ((e).kind <= parse_table_entry_kind__rr_conflict && (VX_SHIFTK((e).kind) ==> ((e).arg < state_count && ((e).has_sr_conflict ==> (e).sr_conflict_rule_info_idx < rule_count))) && (((e).kind == parse_table_entry_kind__reduce || (e).kind == parse_table_entry_kind__rr_conflict) ==> (e).arg < rule_count))
#define VX_WF_TABLE (VX_PARAMS_OK && state_count >= 1 && state_count <= state_count_cap && \
    __CPROVER_forall { size_t vq_tab; (vq_tab < PH_STATES * PH_SYMS) ==> VX_CELL_OK(parse_table[vq_tab / PH_SYMS][vq_tab % PH_SYMS]) })
#define VX_RULE_OK(r) ((r).l_idx < nterm_count && (r).r_idx < rule_count && (r).r_elements <= max_rule_element_count)
#define VX_WF_GI (__CPROVER_forall { size_t vq_gi; (vq_gi < PH_RULES) ==> VX_RULE_OK(gi.rule_infos[vq_gi]) })
#define VX_SYMS_OK (__CPROVER_forall { size_t vq_sym; (vq_sym < PH_RULES * PH_MAXLEN) ==> (gi.right_sides[vq_sym / PH_MAXLEN][vq_sym % PH_MAXLEN].term ? gi.right_sides[vq_sym / PH_MAXLEN][vq_sym % PH_MAXLEN].idx < term_count : gi.right_sides[vq_sym / PH_MAXLEN][vq_sym % PH_MAXLEN].idx < nterm_count) })
/* ghost record of what was printed for the ghost-chosen term column g_c */
unsigned long g_col_n; int g_col_kind; unsigned long g_col_a0; unsigned long g_it_n0;
unsigned g_rule_printed_n; unsigned long g_rule_printed_no;     /* RULES list: number printed beside rule position g_c */
void vx_havoc(void)
{
  size_t a, b, c, d, e, f, g, h; P_TERMS = a; P_NTERMS = b; P_RULES = c; P_MAXLEN = d; P_EMPTY = e; P_SUM_N1 = f; P_STATE_CAP = g; P_SIT_CAP = h;
  struct grammar_info tgi; gi = tgi; __CPROVER_havoc_object(parse_table); __CPROVER_havoc_object(states); __CPROVER_havoc_object(term_names); __CPROVER_havoc_object(nterm_names);
  size16_t sc; state_count = sc; size_t k; g_c = k; unsigned n; vx_ev_n = n; unsigned long sq; vx_ev_seq = sq; vx_thrown = 0; g_col_n = 0; g_rule_printed_n = 0;
}
