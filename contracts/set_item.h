/* The item structure of a set lexeme `[` [`^`] item* `]`, as regex_lexer::match_range / match_range_item accept it: ghost (specification)
   functions, loop-free.  An element is 1..4 bytes (plain, \c, \x, \xH, \xHH), an item is an element or element `-` element (at most 9
   bytes).  B: the bytes, N: their number, i: a position.  Every read is guarded by its index being < N. */
#define VX_SI_HEX(c) (((c) >= 48 && (c) <= 57) || ((c) >= 97 && (c) <= 102) || ((c) >= 65 && (c) <= 70))
#define VX_SI_HEXVAL(c) ((c) <= 57 ? (c) - 48 : ((c) <= 70 ? (c) - 65 + 10 : (c) - 97 + 10))
#define VX_SI_PRINTABLE(c) ((unsigned char)(c) >= 0x20 && (unsigned char)(c) <= 0x7e)
static inline int vx_si_nhex(const char* B, size_t N, size_t i) { /* hex digits after \x at i, i + 1 */
  if (!(i + 2 < N && VX_SI_HEX(B[i + 2]))) return 0;
  if (!(i + 3 < N && VX_SI_HEX(B[i + 3]))) return 1;
  return 2; }
/* element at i: acceptable to the lexer / its length / the byte it denotes */
static inline int vx_si_eok(const char* B, size_t N, size_t i) {
  if (!(i < N)) return 0;
  if (B[i] != 92) return VX_SI_PRINTABLE(B[i]);
  if (!(i + 1 < N)) return 0;
  return B[i + 1] == 120 || VX_SI_PRINTABLE(B[i + 1]); }
static inline size_t vx_si_elen(const char* B, size_t N, size_t i) { /* requires vx_si_eok */
  if (B[i] != 92) return 1;
  if (B[i + 1] != 120) return 2;
  return 2 + (size_t)vx_si_nhex(B, N, i); }
static inline unsigned char vx_si_echr(const char* B, size_t N, size_t i) { /* requires vx_si_eok */
  if (B[i] != 92) return (unsigned char)B[i];
  if (B[i + 1] != 120) return (unsigned char)B[i + 1];
  int h = vx_si_nhex(B, N, i);
  if (h == 0) return 0;
  if (h == 1) return (unsigned char)VX_SI_HEXVAL(B[i + 2]);
  return (unsigned char)(VX_SI_HEXVAL(B[i + 2]) * 16 + VX_SI_HEXVAL(B[i + 3])); }
/* item at i: is it a range, is it acceptable, its length, does it contain byte k */
static inline int vx_si_isrange(const char* B, size_t N, size_t i) { size_t d = i + vx_si_elen(B, N, i); return d < N && B[d] == 45; }
static inline int vx_si_iok(const char* B, size_t N, size_t i) {
  if (!vx_si_eok(B, N, i)) return 0;
  if (!vx_si_isrange(B, N, i)) return 1;
  size_t e = i + vx_si_elen(B, N, i) + 1;
  return e < N && B[e] != 93 && vx_si_eok(B, N, e); }
static inline size_t vx_si_ilen(const char* B, size_t N, size_t i) { /* requires vx_si_iok */
  size_t l = vx_si_elen(B, N, i);
  if (!vx_si_isrange(B, N, i)) return l;
  return l + 1 + vx_si_elen(B, N, i + l + 1); }
static inline int vx_si_ihas(const char* B, size_t N, size_t i, size_t k) { /* requires vx_si_iok */
  size_t c1 = vx_si_echr(B, N, i);
  if (!vx_si_isrange(B, N, i)) return k == c1;
  size_t c2 = vx_si_echr(B, N, i + vx_si_elen(B, N, i) + 1);
  return c1 <= k && k <= c2; }
