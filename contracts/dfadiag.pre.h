/* the bytes of a run: consecutive values starting at the first one */
#define VX_RUN_OK(r) ((r)->N == 256 && (r)->current_size >= 1 && (r)->current_size <= 256 && VX_UC((r)->the_data[0]) + (r)->current_size <= 256 \
   && __CPROVER_forall { size_t vq_ro; (vq_ro < 256) ==> (vq_ro < (r)->current_size ==> VX_UC((r)->the_data[vq_ro]) == VX_UC((r)->the_data[0]) + vq_ro) })
#define VX_COVERS(r) (VX_UC((r)->the_data[0]) <= g_c && g_c < VX_UC((r)->the_data[0]) + (r)->current_size)
