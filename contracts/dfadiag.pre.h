/* the bytes of a run are consecutive values; f_range looks at the first and last one (more than two bytes) or at each (one or two bytes) */
#define VX_RUN_OK(r) ((r)->N == 256 && (r)->current_size >= 1 && (r)->current_size <= 256 && VX_UC((r)->the_data[0]) + (r)->current_size <= 256 \
   && VX_UC((r)->the_data[(r)->current_size - 1]) == VX_UC((r)->the_data[0]) + (r)->current_size - 1)
#define VX_COVERS(r) (VX_UC((r)->the_data[0]) <= g_c && g_c < VX_UC((r)->the_data[0]) + (r)->current_size)
