#define VX_BYTE(off) ((unsigned char)g_buf[off])
/* every transition is `none` or a state of the automaton; state 0 exists.  (For the library's own automata this rests on
   the write-site obligations of the builder plus [L-wf], see DESIGN.md C03.) */
#define VX_WF_SM(sm) (__CPROVER_r_ok(sm, sizeof(struct dfa)) && (sm)->current_size >= 1 && (sm)->current_size <= PH_DFA && (sm)->N <= PH_DFA && (sm)->current_size <= (sm)->N && \
   __CPROVER_forall { size_t vq_wf; (vq_wf < PH_DFA * 256) ==> (vq_wf / 256 < (sm)->current_size ==> ((sm)->the_data[vq_wf / 256].transitions[vq_wf % 256] == uninitialized16 || (sm)->the_data[vq_wf / 256].transitions[vq_wf % 256] < (sm)->current_size)) })
/* ghost observations of the run (through the specification's own expressions, never copies of the function's temporaries) */
bool g_passed_k; size16_t g_rec_k; size_t g_stop_len; bool g_stop_end, g_stop_notrans; const char* g_start0;
struct dfa g_sm;   /* the automaton handed to dfa_match by the harness (arbitrary) */
void vx_havoc(void)
{
  size_t len; __CPROVER_assume(len <= VX_MAXBUF); g_len = len; g_buf = malloc(len + 1); __CPROVER_assume(g_buf);
  size_t k; g_k = k; unsigned n; vx_ev_n = n; vx_thrown = 0; g_passed_k = 0; g_stop_end = 0; g_stop_notrans = 0;
}
/* ---- dfa_builder ---- */
#define VX_WF_B (b_sm.N >= 1 && b_sm.N <= PH_DFA && b_sm.current_size <= b_sm.N)
#define VX_CS_BIT(s, i) (((s)->data.data[(i) / 64] >> ((i) % 64)) & 1)
/* merge is recursive and implements composition by in-place merging (finding D9): abstract here.  What the callers' contracts need:
   it allocates nothing.  Ghost log of the calls. */
unsigned g_mg_n; size_t g_mg_to, g_mg_from; bool g_mg_keep, g_mg_mark; unsigned g_it_mg; size8_t g_it_es;
void vx_merge_abs(size_t to, size_t from, bool keep_end_state, bool mark_from_as_unreachable)
__CPROVER_requires(to < b_sm.current_size && from < b_sm.current_size)
__CPROVER_assigns(g_mg_n, g_mg_to, g_mg_from, g_mg_keep, g_mg_mark, __CPROVER_object_upto(b_sm.the_data, sizeof(b_sm.the_data)))
__CPROVER_ensures((__CPROVER_old(g_mg_n) < 1000 ? g_mg_n == __CPROVER_old(g_mg_n) + 1 : g_mg_n == __CPROVER_old(g_mg_n)) && g_mg_to == to && g_mg_from == from && g_mg_keep == keep_end_state && g_mg_mark == mark_from_as_unreachable);
unsigned g_mes_cnt; size32_t g_mes_start, g_mes_len; size16_t g_mes_idx;   /* ghost record of mark_end_states(slice, idx) */
size_t g_ri, g_rc; bool g_copy_ok;   /* ghost: copy number and character for dfa_builder::rep */
/* char_subset(char_range(c)): the set itself is irrelevant to the allocation contracts (decoding is unit regex_decode) */
static inline struct char_subset vx_char_subset_of_range(char a, char b) { struct char_subset s; return s; }

/* ---- dfa_builder::merge ---- */
/* stdex::cbitset<N>::test / set on merged_from (N <= 64: one word); the members themselves are under contract in unit stdex.
   check_idx throws for idx >= N: asserted here, i.e. merge never runs into that throw */
static inline size_t vx_mf_idx(size_t idx) { __CPROVER_assert(idx < b_sm.N, "cbitset<N>::check_idx: state index below N"); return idx; }
#define VX_MF_TEST(bs, idx) ((((bs).data[0] >> vx_mf_idx(idx)) & 1) != 0)
#define VX_MF_SET(bs, idx) ((bs).data[0] |= ((uint64_t)1 << vx_mf_idx(idx)))
size_t g_c;   /* ghost-chosen input byte */
/* every transition of every state in use is none or a state in use */
#define VX_WF_T (__CPROVER_forall { size_t vq_ws; (vq_ws < PH_DFA) ==> __CPROVER_forall { size_t vq_wc; (vq_wc < 256) ==> (vq_ws < b_sm.current_size ==> \
   (b_sm.the_data[vq_ws].transitions[vq_wc] == uninitialized16 || b_sm.the_data[vq_ws].transitions[vq_wc] < b_sm.current_size)) } })
