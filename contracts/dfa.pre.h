#define VX_BYTE(off) ((unsigned char)g_buf[off])
/* every transition is `none` or a state of the automaton; state 0 exists.  (For the library's own automata this rests on
   the write-site obligations of the builder plus [L-wf], see DESIGN.md C03.) */
#define VX_WF_SM(sm) (__CPROVER_r_ok(sm, sizeof(struct dfa)) && (sm)->current_size >= 1 && (sm)->current_size <= PH_DFA && (sm)->N <= PH_DFA && (sm)->current_size <= (sm)->N && \
   __CPROVER_forall { size_t vq_wf; (vq_wf < PH_DFA * 256) ==> (vq_wf / 256 < (sm)->current_size ==> ((sm)->the_data[vq_wf / 256].transitions[vq_wf % 256] == uninitialized16 || (sm)->the_data[vq_wf / 256].transitions[vq_wf % 256] < (sm)->current_size)) })
/* ghost observations of the run (through the specification's own expressions, never copies of the function's temporaries) */
bool g_passed_k; size16_t g_rec_k; size_t g_stop_len; bool g_stop_end, g_stop_notrans; const char* g_start0;
struct dfa g_sm;   /* the automaton handed to dfa_match by the harness (arbitrary) */
void vx_havoc(void)
{
  size_t len; __CPROVER_assume(len <= VX_MAXBUF); g_len = len; g_buf = malloc(len + 1); __CPROVER_assume(g_buf);
  size_t k; g_k = k; unsigned n; vx_ev_n = n; vx_thrown = 0; g_passed_k = 0; g_stop_end = 0; g_stop_notrans = 0;
}
