/* ---- abstract DSL objects: what the accessors that class parser calls on them return (the accessors themselves are under
   contract in units terms / values / rules) ---- */
struct vx_Term { const char* id; const char* name; int precedence; int ass; const void* ftor; };
static inline const char* vx_Term__get_id(const struct vx_Term* t) { return t->id; }
static inline const char* vx_Term__get_name(const struct vx_Term* t) { return t->name; }
static inline int vx_Term__get_precedence(const struct vx_Term* t) { return t->precedence; }
static inline int vx_Term__get_associativity(const struct vx_Term* t) { return t->ass; }
static inline const void* vx_Term__get_ftor(const struct vx_Term* t) { return t->ftor; }
/* the term tuple, a lexeme, a term value (R13: the functor result is an opaque value) */
struct vx_terms { struct vx_Term t[PH_TERMS]; };
static inline const struct vx_Term* vx_get_term(const struct vx_terms* tt, size_t k) { __CPROVER_assert(k < P_TERMS, "VX_BOUND std::get<TermIdx> inside the term tuple"); return &tt->t[k]; }
struct vx_sv { const char* p; size_t n; };
struct vx_tv { const void* value; struct source_point sp; };
static inline struct vx_tv vx_mk_term_value(const void* v, struct source_point sp) { struct vx_tv r = { v, sp }; return r; }
int g_ap_calls; const void* g_ap_f; const struct vx_sv* g_ap_sv; const void* g_ap_ret;
static inline const void* vx_apply_ftor(const void* f, const struct vx_sv* sv) { if (g_ap_calls < 1000) g_ap_calls++; g_ap_f = f; g_ap_sv = sv; return g_ap_ret; }
struct vx_nterm { const char* name; };
struct vx_nterms { struct vx_nterm t[PH_NTERMS]; };
static inline const struct vx_nterm* vx_get_nterm(const struct vx_nterms* tt, size_t k) { __CPROVER_assert(k < P_NTERMS, "VX_BOUND std::get<I> inside the nterm tuple"); return &tt->t[k]; }
static inline const char* vx_nterm__get_name(const struct vx_nterm* n) { return n->name; }
/* a rule object: the name of its left side, its explicit precedence, and for item I of its right side the symbol that
   make_symbol (under contract below, both overloads) yields for it */
struct vx_rule { const char* l_name; int precedence; struct symbol item_sym[PH_MAXLEN]; };
static inline const char* vx_rule__l_name(const struct vx_rule* r) { return r->l_name; }
static inline int vx_rule__get_precedence(const struct vx_rule* r) { return r->precedence; }
static inline struct symbol vx_make_symbol_item(const struct vx_rule* r, size_t I) { __CPROVER_assert(I < PH_MAXLEN, "VX_BOUND item index"); return r->item_sym[I]; }
/* utils::find_str (under contract in unit utils): here an arbitrary answer, with a ghost record of what was asked */
size_t g_fs_ret; const void* g_fs_table; const char* g_fs_str; int g_fs_calls;
static inline size_t vx_find_str(const char* const* table, const char* str) { if (g_fs_calls < 1000) g_fs_calls++; g_fs_table = table; g_fs_str = str; return g_fs_ret; }
/* string_view_to_term_value<TermIdx>: one function per term index (ghost id) */
char vx_ftor_pool[PH_TERMS];
static inline const void* vx_term_ftor(size_t i) { return (const void*)(vx_ftor_pool + i); }
size_t g_k, g_j;
void vx_havoc(void)
{
  size_t a, b, c, d, e, f, g, h, n; P_TERMS = a; P_NTERMS = b; P_RULES = c; P_MAXLEN = d; P_EMPTY = e; P_SUM_N1 = f; P_STATE_CAP = g; P_SIT_CAP = h; P_N = n;
  struct grammar_info tgi; gi = tgi;
  __CPROVER_havoc_object(term_names); __CPROVER_havoc_object(term_ids); __CPROVER_havoc_object(nterm_names); __CPROVER_havoc_object(term_ftors);
  size_t k, j, fr; g_k = k; g_j = j; g_fs_ret = fr; g_fs_calls = 0; vx_thrown = 0;
}
#define VX_STR_IS(p, a, b, c, d) ((p)[0] == (a) && (p)[1] == (b) && (p)[2] == (c) && (p)[3] == (d))
/* the symbols of a rule's items are declared symbols */
#define VX_ITEMS_OK(r) (__CPROVER_forall { size_t vq_io; (vq_io < PH_MAXLEN) ==> (vq_io < P_N ==> ((r)->item_sym[vq_io].idx != uninitialized16 \
     && ((r)->item_sym[vq_io].term ? (r)->item_sym[vq_io].idx < term_count : (r)->item_sym[vq_io].idx < nterm_count))) })
#define VX_PACK_LOOP \
  __CPROVER_assigns(I, __CPROVER_object_upto(&gi.right_sides[Nr][0], sizeof(gi.right_sides[Nr]))) \
  __CPROVER_loop_invariant(I <= P_N && __CPROVER_forall { size_t vq_pl; (vq_pl < PH_MAXLEN) ==> (vq_pl < I ==> (gi.right_sides[Nr][vq_pl].term == r->item_sym[vq_pl].term && gi.right_sides[Nr][vq_pl].idx == r->item_sym[vq_pl].idx)) }) \
  __CPROVER_decreases(P_N - I)

/* parser::term_tuple / nterm_tuple: the tuples the constructor stored (R3: members as globals) */
struct vx_terms term_tuple; struct vx_nterms nterm_tuple;
#define VX_TERMS_LOOP \
  __CPROVER_assigns(I, __CPROVER_object_whole(term_names), __CPROVER_object_whole(term_ids), __CPROVER_object_whole(term_ftors), __CPROVER_object_upto(gi.term_precedences, sizeof(gi.term_precedences)), __CPROVER_object_upto(gi.term_associativities, sizeof(gi.term_associativities))) \
  __CPROVER_loop_invariant(I <= P_TERMS && (g_k < I ==> VX_TERM_SLOT_OK(g_k)) && VX_TERM_TAIL_KEPT) \
  __CPROVER_decreases(P_TERMS - I)
#define VX_TERM_SLOT_OK(k) (gi.term_precedences[k] == term_tuple.t[k].precedence && gi.term_associativities[k] == term_tuple.t[k].ass && term_names[k] == term_tuple.t[k].name \
   && term_ids[k] == term_tuple.t[k].id && term_ftors[k] == (const void*)(vx_ftor_pool + (k)))
/* the two slots behind the user's terms (<eof>, <error_recovery_token>) are not touched */
#define VX_TERM_TAIL_KEPT (term_names[eof_idx] == g_keep_n0 && term_names[error_recovery_token_idx] == g_keep_n1 && gi.term_precedences[eof_idx] == g_keep_p0 && gi.term_precedences[error_recovery_token_idx] == g_keep_p1)
const char *g_keep_n0, *g_keep_n1; int g_keep_p0, g_keep_p1;
#define VX_NTERMS_LOOP \
  __CPROVER_assigns(I, __CPROVER_object_whole(nterm_names)) \
  __CPROVER_loop_invariant(I <= P_NTERMS && (g_k < I ==> nterm_names[g_k] == nterm_tuple.t[g_k].name) && nterm_names[fake_root_idx] == g_keep_n0) \
  __CPROVER_decreases(P_NTERMS - I)

/* ---- order of the construction steps (each step is under contract on its own elsewhere; here they are abstract and only their order counts) ---- */
enum { VX_S_NTERMS, VX_S_FAKE_ROOT, VX_S_TERMS, VX_S_EOF, VX_S_ERR, VX_S_RULES, VX_S_STATES, VX_S_LEXER, VX_S_SORT, VX_S_SLICES, VX_S_STORE, VX_S_N };
unsigned g_seq, g_at[VX_S_N], g_cnt[VX_S_N];
static inline void vx_step(int s) { if (g_seq < 1000) g_seq++; g_at[s] = g_seq; if (g_cnt[s] < 1000) g_cnt[s]++; }
static inline void vx_store_term_tuple(void) { vx_step(VX_S_STORE); }
static inline void vx_store_nterm_tuple(void) { vx_step(VX_S_STORE); }
static inline void vx_store_rule_tuple(void) { vx_step(VX_S_STORE); }
/* analyze_rule<I>: which rules were analysed, how often, and when the last one was */
unsigned g_ar_calls, g_ar_last_at; bool g_ar_hit, g_ar_root; unsigned g_ar_hit_n;
static inline void vx_step_analyze_rule(size_t i) { if (g_seq < 1000) g_seq++; g_ar_last_at = g_seq; if (g_ar_calls < 1000) g_ar_calls++; if (i == g_k) { g_ar_hit = 1; if (g_ar_hit_n < 1000) g_ar_hit_n++; } if (i == root_rule_idx) g_ar_root = 1; }
#define VX_RULES_LOOP \
  __CPROVER_assigns(I, g_seq, g_ar_calls, g_ar_last_at, g_ar_hit, g_ar_root, g_ar_hit_n) \
  __CPROVER_loop_invariant(I <= P_RULES && g_ar_calls == I && g_seq == I && !g_ar_root && (g_k < I ? (g_ar_hit && g_ar_hit_n == 1) : (!g_ar_hit && g_ar_hit_n == 0)) && (I >= 1 ==> g_ar_last_at == I)) \
  __CPROVER_decreases(P_RULES - I)

/* ---- create_lexer: add_term_data_to_dfa(data of term I, builder on lexer_sm, index I) for every declared term, in declaration order ---- */
bool VX_GENERATE_LEXER; enum { VX_LEXER_SM = 7 }; int g_builder_on;
static inline void vx_builder_on(int sm) { g_builder_on = sm; }
unsigned g_atd_calls; size16_t g_atd_last_idx; bool g_atd_hit, g_atd_ordered, g_atd_data_ok; unsigned g_atd_hit_n;
static inline void vx_add_term_data(const struct vx_Term* t, size16_t idx) {
  if (g_atd_calls > 0 && !(idx > g_atd_last_idx)) g_atd_ordered = 0;          /* strictly ascending indices = declaration order */
  if (g_atd_calls < 1000) g_atd_calls++; g_atd_last_idx = idx;
  if (idx == g_k) { g_atd_hit = 1; if (g_atd_hit_n < 1000) g_atd_hit_n++; g_atd_data_ok = (t == &term_tuple.t[g_k]) && g_builder_on == VX_LEXER_SM; } }
#define VX_LEXER_LOOP \
  __CPROVER_assigns(I, g_atd_calls, g_atd_last_idx, g_atd_hit, g_atd_ordered, g_atd_data_ok, g_atd_hit_n) \
  __CPROVER_loop_invariant(I <= P_TERMS && g_atd_calls == I && g_atd_ordered && (I >= 1 ==> g_atd_last_idx == I - 1) && (g_k < I ? (g_atd_hit && g_atd_hit_n == 1 && g_atd_data_ok) : (!g_atd_hit && g_atd_hit_n == 0))) \
  __CPROVER_decreases(P_TERMS - I)
