"""vx.decide -- property -> units/functions -> obligations -> exit code, VIOLATION / KNOWN-FINDING lines, evidence."""
import os, re, sys, json, time, hashlib, subprocess, importlib.util
from concurrent.futures import ThreadPoolExecutor
from . import core, lower as L, native, fidelity

VERIF = core.VERIF


def load_props():
    spec = importlib.util.spec_from_file_location('vx_props', os.path.join(VERIF, 'obligations', 'props.py'))
    mod = importlib.util.module_from_spec(spec)
    spec.loader.exec_module(mod)
    return mod


def load_known():
    path = os.path.join(VERIF, 'known_findings.jsonl')
    out = []
    if os.path.exists(path):
        for line in open(path):
            line = line.strip()
            if line and not line.startswith('#'):
                out.append(json.loads(line))
    return out


def write_replay(prop, job, o, native_res, extra=None):
    d = os.path.join(os.environ.get('VX_EVIDENCE_DIR') or VERIF, 'replay_out')
    os.makedirs(d, exist_ok=True)
    h = hashlib.sha256((prop + o['id']).encode()).hexdigest()[:12]
    path = os.path.join(d, '%s-%s.json' % (prop, h))
    rec = dict(property=prop, obligation=o['id'], unit=job.unit, function=job.fn, cbmc_property=o['prop'],
               description=o['desc'], lowered_line=o['line'], source='ctpg.hpp:%s' % job.info.get('line'),
               verifier_cmds=job.cmds, counterexample=o.get('trace', [])[-200:], native=native_res)
    if extra:
        rec.update(extra)
    json.dump(rec, open(path, 'w'), indent=1)
    return path


def main(argv):
    try:
        return _main(argv)
    except SystemExit:
        raise
    except BaseException as e:
        import traceback; traceback.print_exc()
        print('UNDECIDED internal error in the checking machinery: %r' % (e,))
        return 2


def _main(argv):
    if argv and argv[0] == '--setup':
        return setup()
    if len(argv) >= 3 and argv[1] == '--replay':
        return replay(argv[0], argv[2])
    if not argv:
        print(__doc__); return 2
    prop = argv[0]
    tier = os.environ.get('VERIF_TIER', 'quick')
    if '--tier' in argv:
        tier = argv[argv.index('--tier') + 1]
    seed = int(os.environ.get('VERIF_SEED', '0') or 0)
    return check(prop, tier, seed)


def setup():
    ok = True
    for tool, want in (('cbmc', '6.11'), ('goto-cc', '6.11'), ('goto-instrument', '6.11'), ('cvc5', '1.0'), ('g++', '12'), ('clang++', '14')):
        try:
            v = subprocess.run([tool, '--version'], stdout=subprocess.PIPE, stderr=subprocess.STDOUT).stdout.decode()
        except FileNotFoundError:
            v = ''
        good = want in v
        print('%-16s %s' % (tool, 'ok' if good else 'MISSING/unsupported version: ' + v[:60]))
        ok = ok and good
    shim = os.path.join(VERIF, '.vx', 'shim')
    os.makedirs(shim, exist_ok=True)
    z = '/usr/local/bin/z3-new'
    if os.path.exists(z):
        link = os.path.join(shim, 'z3')
        if not os.path.exists(link):
            os.symlink(z, link)
    os.makedirs(os.path.join(VERIF, 'evidence'), exist_ok=True)
    return 0 if ok else 2


def check(prop, tier, seed):
    t0 = time.time()
    if tier == 'thorough':
        os.environ['VX_NO_CACHE'] = '1'
    P = load_props()
    if prop not in P.PROPS:
        print('unknown or unclaimed property', prop); return 2
    spec = P.PROPS[prop]
    lines, undecided, violations, known_lines = [], [], [], []
    jobs = {}
    fn_evidence = []
    try:
        src = L.Source(core.HEADER)
        units = [core.load_unit(u) for u in spec['units']]
        todo = []
        for u in units:
            if hasattr(u, 'configure'):
                u.configure(tier)
            names = [f.name for f in u.fns if f.harness and (prop in f.props or u.name in spec.get('all', []))
                     and (tier == 'thorough' or getattr(f, 'tier', 'quick') != 'thorough')]
            if tier == 'thorough':
                pass
            todo.append((u, names))
        with ThreadPoolExecutor(max_workers=max(1, len(todo))) as ex:
            per = max(2, 16 // max(1, len(todo)))
            futs = [ex.submit(core.verify_unit, u, names, src, per) for u, names in todo if names]
            for fu in futs:
                res, info = fu.result()
                for k, r in res.items():
                    jobs[(r.unit, k)] = r
        static = []
        for sf in spec.get('static', []):
            static += sf(src)
        fid = []
        for u in units:
            if u.name in fidelity.DRIVERS:
                ok, out = fidelity.run(u.name, 100000 if tier == 'thorough' else 2000, seed, src)
                fid.append(dict(unit=u.name, agree=ok, summary=out.strip().split('\n')[-1][:200]))
                if ok is not True:
                    undecided.append('EXTRACTION-UNSOUND or fidelity guard not runnable for unit %s: %s' % (u.name, out.strip()[-300:]))
    except L.ExtractionBreak as e:
        # the contracts cannot be woven into this text; a *semantic* static fact (one that is the property's own statement about the
        # text, e.g. C15 "no const_cast") is still decidable and is still reported
        sviol = []
        try:
            src0 = L.Source(core.HEADER)
            for sf in spec.get('static', []):
                for s in sf(src0):
                    if not s['ok'] and s.get('kind', 'pattern') == 'semantic':
                        path = write_replay(prop, type('J', (), dict(unit='static', fn='scan', info={}, cmds=['python scan']))(),
                                            dict(id='static/' + s['id'], prop='static', desc=s['desc'], line=s.get('line'), trace=[]), None, dict(detail=s.get('detail')))
                        sviol.append('VIOLATION property=%s replay=%s obligation="static/%s" no-failing-input-found' % (prop, os.path.relpath(path, VERIF), s['id']))
        except Exception:
            pass
        for v in sviol:
            print(v)
        print('UNDECIDED property=%s extraction break: %s' % (prop, e))
        write_evidence(prop, tier, seed, t0, [], {}, [], [], ['extraction break: %s' % e], spec, violations=sviol)
        return 1 if sviol else 2

    known = [k for k in load_known() if k.get('property') == prop and k.get('status', 'finding') == 'finding']
    known_state = {}
    for k in known:
        ok, out = native.run_witness(k['witness'])
        known_state[k['id']] = (ok, out)       # ok == True: the witness still manifests on the real code
        if ok:
            known_lines.append('KNOWN-FINDING: property=%s %s' % (prop, k['what']))

    all_obl, discharged, bounded = [], [], []
    for (un, fn), r in sorted(jobs.items()):
        if r.status == 'undecided':
            undecided.append('%s/%s: %s' % (un, fn, r.reason))
        owned = getattr(P, 'OWNED', {})
        def counts(o):
            for rx, owners in owned.items():
                if re.search(rx, o['id']) and prop not in owners:
                    return False
            return True
        fobj = [x for u in units if u.name == un for x in u.fns if x.name == fn][0]
        is_bounded = bool(getattr(fobj, 'no_loop_contracts', False))
        for o in r.obligations:
            if counts(o):
                all_obl.append(dict(o, unit=un, fn=fn, bounded=is_bounded))
        for o in r.failed():
            if not counts(o):
                continue
            covered = None
            for k in known:
                if re.search(k['obligation'], o['id']) and known_state[k['id']][0]:
                    covered = k
            if covered:
                for x in all_obl:
                    if x['id'] == o['id'] and x.get('unit') == un and x.get('fn') == fn:
                        x['known'] = covered['id']
                continue
            f = [x for u in units if u.name == un for x in u.fns if x.name == fn][0]
            nres = native.replay(un, f, o, src)
            path = write_replay(prop, r, o, nres)
            tail = '' if nres and nres.get('reproduced') else ' no-failing-input-found'
            violations.append('VIOLATION property=%s replay=%s obligation="%s"%s' % (prop, os.path.relpath(path, VERIF), o['id'][:160], tail))
    for s in static:
        if not s['ok'] and s.get('kind', 'pattern') == 'pattern':
            # a one-line body the lowering relies on no longer has the expected shape: the justification of a rule is gone -> undecided, not a verdict
            undecided.append('static/%s: pattern fact no longer matches (%s)' % (s['id'], s.get('detail')))
            continue
        all_obl.append(dict(id='static/' + s['id'], status='SUCCESS' if s['ok'] else 'FAILURE', desc=s['desc'], unit='static', fn='scan', prop='static'))
        if not s['ok']:
            path = write_replay(prop, type('J', (), dict(unit='static', fn='scan', info={}, cmds=['python scan']))(),
                                dict(id='static/' + s['id'], prop='static', desc=s['desc'], line=s.get('line'), trace=[]), None,
                                dict(detail=s.get('detail')))
            violations.append('VIOLATION property=%s replay=%s obligation="static/%s" no-failing-input-found' % (prop, os.path.relpath(path, VERIF), s['id']))
    extra = {}
    if tier == 'thorough' and not violations:
        extra = thorough_extras(prop, units, jobs, src, undecided)
    for l in known_lines:
        print(l)
    for v in violations:
        print(v)
    for u in undecided:
        print('UNDECIDED property=%s %s' % (prop, u[:600]))

    extra = dict(extra or {}, fidelity_guard=fid)
    write_evidence(prop, tier, seed, t0, all_obl, jobs, units, known_lines, undecided, spec, violations=violations, extra=extra)
    if violations:
        return 1
    if undecided or not all_obl:
        return 2
    print('OK property=%s obligations=%d functions=%d wall=%.1fs' % (prop, len(all_obl), len(jobs), time.time() - t0))
    return 0


def thorough_extras(prop, units, jobs, src, undecided):
    """(1) every job that took < 90 s is re-run on a second SAT back end (cadical) and must give the same verdicts;
    (2) every seeded change recorded for this property must be reported as a VIOLATION."""
    extra = dict(cross_backend=[], mutants_killed=[], mutants_survived=[])
    for u in units:
        names = [fn for (un, fn), r in jobs.items() if un == u.name and r.status == 'ok' and r.solver_s < 90]
        if not names:
            continue
        saved = {}
        for f in u.fns:
            if f.name in names:
                saved[f.name] = f.solver
                f.solver = 'cadical' if f.solver != 'cadical' else 'sat'
        res2, _ = core.verify_unit(u, names, src, 16, cover=False)
        for f in u.fns:
            if f.name in saved:
                f.solver = saved[f.name]
        for fn, r2 in res2.items():
            r1 = jobs[(u.name, fn)]
            v1 = sorted((o['id'], o['status']) for o in r1.obligations)
            v2 = sorted((o['id'], o['status']) for o in r2.obligations)
            agree = (v1 == v2) and r2.status == 'ok'
            extra['cross_backend'].append(dict(unit=u.name, function=fn, second_backend=r2.backend, agree=agree, solver_s=round(r2.solver_s, 1)))
            if not agree:
                undecided.append('%s/%s: back ends disagree or second back end undecided (%s)' % (u.name, fn, r2.reason[:200]))
    sd = os.path.join(VERIF, 'seeded')
    for sid in sorted(os.listdir(sd)) if os.path.isdir(sd) else []:
        mp = os.path.join(sd, sid, 'meta.json')
        if not os.path.exists(mp):
            continue
        meta = json.load(open(mp))
        if prop not in meta.get('expected_caught_by', []):
            continue
        import tempfile, shutil
        tmp = tempfile.mkdtemp(prefix='seedhdr.', dir='/var/tmp')
        try:
            os.makedirs(os.path.join(tmp, 'include/ctpg'))
            shutil.copy(os.path.join(core.REPO, 'include/ctpg/ctpg.hpp'), os.path.join(tmp, 'include/ctpg/ctpg.hpp'))
            pr = subprocess.run(['patch', '-p1', '-s', '-i', os.path.join(sd, sid, 'patch.diff')], cwd=tmp, stdout=subprocess.PIPE, stderr=subprocess.STDOUT)
            if pr.returncode != 0:
                extra['mutants_survived'].append(dict(id=sid, reason='patch no longer applies')); continue
            env = dict(os.environ, VX_HEADER=os.path.join(tmp, 'include/ctpg/ctpg.hpp'), VX_EVIDENCE_DIR=tmp)
            env.pop('VX_NO_CACHE', None)
            r = subprocess.run([os.path.join(VERIF, 'check'), prop, '--tier', 'quick'], cwd=VERIF, env=env, stdout=subprocess.PIPE, stderr=subprocess.STDOUT)
            out = r.stdout.decode()
            if r.returncode == 1 and 'VIOLATION' in out:
                extra['mutants_killed'].append(dict(id=sid, obligation=[l for l in out.split('\n') if l.startswith('VIOLATION')][0][:300]))
            else:
                extra['mutants_survived'].append(dict(id=sid, rc=r.returncode))
                undecided.append('seeded change %s is no longer reported (machinery too weak)' % sid)
        finally:
            shutil.rmtree(tmp, ignore_errors=True)
    return extra


def write_evidence(prop, tier, seed, t0, all_obl, jobs, units, known_lines, undecided, spec, violations=(), extra=None, **kw):
    counted = [o for o in all_obl if not o.get('known') and not o.get('bounded')]
    bounded = [o for o in all_obl if o.get('bounded')]
    n_ok = sum(1 for o in counted if o['status'] == 'SUCCESS')
    fns = []
    assumptions = list(spec.get('assumptions', []))
    trusted = ['CBMC 6.11 (goto-cc, goto-instrument --dfcc, cbmc) and its SAT/SMT back ends',
               'vx lowering rules R1-R22 (DESIGN.md 3.2 and 0.6): the C text verified is the /repo text rewritten by them',
               'g++/clang++ implement C++17 for the parts lowering drops (templates, references, std::)']
    for (un, fn), r in sorted((jobs or {}).items()):
        f = [x for u in units if u.name == un for x in u.fns if x.name == fn][0]
        fns.append(dict(unit=un, function=fn, source_line=r.info.get('line'), body_sha=r.info.get('sha'), backend=r.backend,
                        solver_s=round(r.solver_s, 2), result_reused_from_identical_text=bool(getattr(r, 'cached', False)), obligations=len(r.obligations),
                        discharged=sum(1 for o in r.obligations if o['status'] == 'SUCCESS'), status=r.status,
                        replaced_by_contract=f.replace, loop_contracts=len(f.loops), reach_check=r.cover_ok,
                        bounded_unwind=f.unwind, rules_fired=[list(x) for x in r.info.get('rules', []) if x[1]]))
        for c in f.replace:
            if c.startswith('vx_'):
                assumptions.append('%s: callee %s is an abstract contract (ghost stand-in), not a verified body' % (fn, c))
        if f.unwind and getattr(f, 'no_loop_contracts', False):
            assumptions.append('%s: BOUNDED stand-in: its loop is unwound %d times with unwinding assertions instead of being closed by an invariant' % (fn, f.unwind))
        elif f.unwind:
            assumptions.append('%s: harness input construction unwound to %d (inputs up to the stated maximum only)' % (fn, f.unwind))
    samples = [dict(obligation=o['id'], status=o['status']) for o in counted[:3]] + \
              [dict(obligation=o['id'], status=o['status']) for o in counted if 'postcondition' in o['id'] or 'loop_invariant' in o['id']][:12]
    ev = dict(property_id=prop, tier=tier, seed=seed, level='proof',
              coverage=dict(obligations=len(counted), discharged=n_ok,
                            checker_cmd='./check %s --tier %s  (per function: goto-cc --function h_<fn>; goto-instrument --dfcc h_<fn> --enforce-contract <fn> [--replace-call-with-contract g] --apply-loop-contracts; cbmc %s)' % (prop, tier, ' '.join(core.CBMC_CHECKS)),
                            trusted_base=trusted, samples=samples or [dict(note='no obligations generated')],
                            functions_under_contract=fns,
                            bounded=dict(note='bounded stand-ins (loops unwound with unwinding assertions, no loop contract): checked, never counted under obligations/discharged',
                                         obligations=len(bounded), passed=sum(1 for o in bounded if o['status'] == 'SUCCESS'),
                                         functions=sorted(set('%s/%s' % (o['unit'], o['fn']) for o in bounded))), known_findings=list(known_lines), undecided=list(undecided),
                            excluded_known_finding_obligations=[o['id'] for o in all_obl if o.get('known')],
                            header=core.HEADER, header_sha=hashlib.sha256(open(core.HEADER, 'rb').read()).hexdigest()[:16],
                            claim=spec.get('claim', ''), **(extra or {})),
              assumptions=sorted(set(assumptions)), wall_s=round(time.time() - t0, 2), violations=len(violations))
    evdir = os.environ.get('VX_EVIDENCE_DIR') or os.path.join(VERIF, 'evidence')
    os.makedirs(evdir, exist_ok=True)
    json.dump(ev, open(os.path.join(evdir, prop + '.json'), 'w'), indent=1)


def replay(prop, path):
    rec = json.load(open(path if os.path.isabs(path) else os.path.join(VERIF, path)))
    print(json.dumps({k: rec[k] for k in ('property', 'obligation', 'description', 'source') if k in rec}, indent=1))
    n = rec.get('native')
    if n and n.get('program'):
        ok, out = native.run_program_text(n['program'], n.get('flags', []))
        print(out[-3000:])
        print('REPRODUCED' if ok else 'not reproduced')
        return 1 if ok else 0
    print('no native reproduction recorded (no-failing-input-found); verifier counterexample:')
    for t in rec.get('counterexample', [])[-60:]:
        print('  ', t)
    return 1
