"""vx.core -- build lowered translation units, run goto-cc / goto-instrument / cbmc per function,
collect obligations."""
import os, re, sys, json, time, hashlib, shutil, subprocess, importlib.util, tempfile, atexit
from concurrent.futures import ThreadPoolExecutor
from . import lower as L

VERIF = os.path.dirname(os.path.dirname(os.path.abspath(__file__)))
REPO = os.environ.get('VX_REPO', '/repo')
HEADER = os.environ.get('VX_HEADER') or os.path.join(REPO, 'include/ctpg/ctpg.hpp')
_scratch = None


def scratch():
    global _scratch
    if _scratch is None:
        base = os.environ.get('VERIF_SCRATCH', '/var/tmp')
        _scratch = tempfile.mkdtemp(prefix='vx.', dir=base)
        if not os.environ.get('VX_KEEP'):
            atexit.register(lambda: shutil.rmtree(_scratch, ignore_errors=True))
    return _scratch


class Fn:
    def __init__(self, name, header, csig, scope=None, contract='', loops=None, rules=(), weave=(),
                 harness=None, replace=(), flags=(), solver='sat', timeout=300, props=(), between_ok=r'\s*(const)?\s*',
                 body_pre='', extra_enforce=(), unwind=None, cover=True, configs=None, no_enforce=False, mem_gb=12,
                 fragment=None, objbits=None, ctor=False):
        self.name, self.header, self.csig, self.scope = name, header, csig, scope
        self.contract, self.loops, self.rules, self.weave = contract, loops or {}, list(rules), list(weave)
        self.harness, self.replace, self.flags, self.solver = harness, list(replace), list(flags), solver
        self.timeout, self.props, self.between_ok, self.body_pre = timeout, props, between_ok, body_pre
        self.unwind, self.cover, self.no_enforce, self.mem_gb = unwind, cover, no_enforce, mem_gb
        self.fragment, self.objbits = fragment, objbits
        self.ctor = ctor          # constructor: the mem-initializer list is lowered as leading statements VX_INIT__<member>(<args>);
        self.extract = None
        self.lowered = None
        self.log = None


class Unit:
    def __init__(self, name, prelude, fns, defines=None, consts=(), post=''):
        self.name, self.prelude, self.fns, self.defines = name, prelude, fns, defines or {}
        self.consts = consts      # list of (macro, regex-with-1-group, scope) grabbed from the real text
        self.post = post

    def fn(self, name):
        for f in self.fns:
            if f.name == name:
                return f
        raise KeyError(name)


def load_spec(path):
    """sidecar contract file:  //@ fn NAME ; then sections //@ contract | //@ loop K | //@ harness | //@ replace a b |
    //@ props C01 C02 | //@ opt key=value | //@ weave <where> [loop=K] /regex/  (code on following lines)"""
    specs, cur, sec = {}, None, None
    for line in open(path):
        m = re.match(r'\s*//@\s*(\w+)\s*(.*)', line)
        if m:
            key, rest = m.group(1), m.group(2).strip()
            if key == 'fn':
                cur = specs.setdefault(rest, dict(contract='', loops={}, harness='', replace=[], props=[], opt={}, weave=[]))
                sec = None
            elif key == 'contract':
                sec = ('contract',)
            elif key == 'loop':
                sec = ('loop', int(rest)); cur['loops'][int(rest)] = ''
            elif key == 'harness':
                sec = ('harness',)
            elif key == 'replace':
                cur['replace'] += rest.split(); sec = None
            elif key == 'props':
                cur['props'] += rest.split(); sec = None
            elif key == 'opt':
                k, _, v = rest.partition('='); cur['opt'][k.strip()] = v.strip(); sec = None
            elif key == 'weave':
                mm = re.match(r'(\S+)\s*(?:loop=(\d+))?\s*(?:/(.*)/)?\s*(?:min=(\d+))?\s*(?:max=(\d+))?$', rest)
                w = dict(where=mm.group(1), code='')
                if mm.group(2): w['loop'] = int(mm.group(2))
                if mm.group(3): w['at'] = mm.group(3)
                if mm.group(4): w['min'] = int(mm.group(4))
                if mm.group(5): w['max'] = int(mm.group(5))
                cur['weave'].append(w); sec = ('weave', w)
            elif key == 'end':
                sec = None
            continue
        if cur is None or sec is None:
            continue
        if sec[0] == 'contract':
            cur['contract'] += line
        elif sec[0] == 'loop':
            cur['loops'][sec[1]] += line
        elif sec[0] == 'harness':
            cur['harness'] += line
        elif sec[0] == 'weave':
            sec[1]['code'] += line.strip() + ' '
    return specs


def apply_spec(fns, path):
    specs = load_spec(path)
    byname = {f.name: f for f in fns}
    for name, sp in specs.items():
        if name not in byname:
            raise L.ExtractionBreak('spec for unknown function %s in %s' % (name, path))
        f = byname[name]
        f.contract = sp['contract']
        f.loops = sp['loops']
        f.harness = sp['harness'] or None
        f.replace = sp['replace']
        f.props = sp['props']
        f.weave = list(f.weave) + sp['weave']
        for k, v in sp['opt'].items():
            if k in ('timeout', 'unwind', 'mem_gb', 'objbits'):
                setattr(f, k, int(v))
            elif k == 'flags':
                f.flags = v.split()
            elif k in ('cover', 'no_enforce', 'no_loop_contracts', 'rec'):
                setattr(f, k, v not in ('0', 'false', 'no'))
            else:
                setattr(f, k, v)


def load_unit(name):
    """`unit@variant` loads the same recipe with VX_UNIT_VARIANT set (smaller physical maxima for the heaviest functions)"""
    base, _, variant = name.partition('@')
    path = os.path.join(VERIF, 'units', base + '.py')
    spec = importlib.util.spec_from_file_location('vx_unit_' + name.replace('@', '_'), path)
    mod = importlib.util.module_from_spec(spec)
    old = os.environ.get('VX_UNIT_VARIANT')
    os.environ['VX_UNIT_VARIANT'] = variant
    try:
        spec.loader.exec_module(mod)
    finally:
        if old is None:
            os.environ.pop('VX_UNIT_VARIANT', None)
        else:
            os.environ['VX_UNIT_VARIANT'] = old
    mod.UNIT.name = name.replace('@', '_')
    return mod.UNIT


# ----------------------------------------------------------------------------- building C

COMMON = r'''
#include <stddef.h>
#include <stdint.h>
#include <stdbool.h>
#include <stdlib.h>
typedef uint8_t size8_t; typedef uint16_t size16_t; typedef uint32_t size32_t;
typedef size_t size_type;
extern int vx_thrown;            /* R11: ghost flag, site of the throw that ended the path */
#define VX_THROW(site) do { vx_thrown = (site); __CPROVER_assume(0); } while (0)
#define VX_BOUND(i, n) __CPROVER_assert((size_t)(i) < (size_t)(n), "VX_BOUND logical bound " #i " < " #n)
'''


def build_unit_text(unit, src):
    """returns (C text without harness, per-function info)"""
    out = [COMMON]
    for rx in getattr(unit, 'facts', []):
        src.grab(rx, 0)            # static fact: must match exactly once, else extraction break
    for cname, rx, scope in getattr(unit, 'enums', []):
        # R2: C enum generated from the real enumerator list
        items = [x.strip() for x in src.grab(rx, 1, scope).split(',') if x.strip()]
        out.append('enum %s { %s };\n' % (cname, ', '.join('%s__%s' % (cname, it) for it in items)))
    for tname, rx, scope in getattr(unit, 'typedefs', []):
        # R16: a member's type is taken from the real declaration
        out.append('typedef %s %s;\n' % (src.grab(rx, 1, scope).strip(), tname))
    for macro, rx, scope in unit.consts:
        val = src.grab(rx, 1, scope)
        val, _ = L.lower(val, getattr(unit, 'const_rules', []))
        out.append('#define %s (%s)\n' % (macro, val.strip()))
    out.append('@@PRELUDE@@')
    if getattr(unit, 'prelude_hook', None):
        # declarations derived from the real text on this run (e.g. data members of a class that the recipe does not list)
        out.append(unit.prelude_hook(src))
    # prototypes
    for f in unit.fns:
        out.append(f.csig + ';\n')
    info = {}
    for f in unit.fns:
        inits = ''
        if getattr(f, 'ctor', False):
            # R19: mem-initializer list -> one statement per initializer, in textual order, ahead of the constructor body
            ex = src.ctor(f.header, f.scope)
            inits = ''.join(' VX_INIT__%s(%s);' % it for it in ex['inits'])
        else:
            ex = src.function(f.header, f.scope)
            if not re.fullmatch(f.between_ok, ex['between'], re.S):
                raise L.ExtractionBreak('%s: unexpected text between header and body: %r' % (f.name, ex['between']))
        body = ex['body']
        if inits:
            body = '{' + inits + body[1:]
        if f.fragment:
            body = f.fragment(body)
        body, nloops = L.weave_loops(body, f.loops, f.name)
        body = L.weave_points(body, f.weave, f.name)
        body, log = L.lower(body, f.rules)
        if getattr(f, 'header_hook', None):
            # R22: a prologue derived from the real parameter list (the matched header text)
            body = '{' + f.header_hook(ex['header']) + body[1:]
        if f.body_pre:
            body = '{' + f.body_pre + body[1:]
        f.extract, f.lowered, f.log = ex, body, log
        info[f.name] = dict(line=ex['line'], sha=ex['sha'], loops=nloops, rules=log.fired)
        out.append('/* ---- %s  (ctpg.hpp:%d-%d, sha %s) ---- */\n' % (f.name, ex['line'], ex['end_line'], ex['sha']))
        out.append(f.csig + '\n' + f.contract.strip() + '\n/*VX_BODY %s*/' % f.name + body + '\n')
    out.append(unit.post)
    prelude = unit.prelude
    # R10: the event kinds found by the Emit rules of this unit become an enum
    kinds = []
    for f in unit.fns:
        for r in f.rules:
            for k in getattr(r, 'kinds', []):
                if k not in kinds:
                    kinds.append(k)
    if '@@EV_ENUM@@' in prelude:
        prelude = prelude.replace('@@EV_ENUM@@', 'enum vx_ev_kind { EV_none, %s };' % ', '.join(kinds))
    return ''.join(out).replace('@@PRELUDE@@', prelude), info


def cover_variant(text, fname_body_marker):
    return text


# ----------------------------------------------------------------------------- running tools

def run(cmd, timeout, mem_gb=12, cwd=None, env=None):
    t0 = time.time()
    pre = 'ulimit -v %d; ' % (mem_gb * 1024 * 1024)
    env = dict(env if env is not None else os.environ)
    env['TMPDIR'] = scratch()        # cbmc's external-SAT CNF files (up to 1 GB each) must not outlive the run
    try:
        p = subprocess.run(['bash', '-c', pre + 'exec "$@"', 'x'] + cmd, stdout=subprocess.PIPE, stderr=subprocess.PIPE,
                           timeout=timeout, cwd=cwd, env=env)
        return p.returncode, p.stdout.decode(errors='replace'), p.stderr.decode(errors='replace'), time.time() - t0
    except subprocess.TimeoutExpired as e:
        return -9, (e.stdout or b'').decode(errors='replace'), 'TIMEOUT after %ds' % timeout, time.time() - t0


CBMC_CHECKS = ['--bounds-check', '--pointer-check', '--pointer-overflow-check', '--signed-overflow-check',
               '--unsigned-overflow-check', '--div-by-zero-check', '--pointer-primitive-check']


def solver_flags(solver):
    if solver == 'sat':
        return []
    if solver == 'cadical':
        return ['--sat-solver', 'cadical']
    if solver == 'kissat':
        return ['--external-sat-solver', 'kissat']
    if solver == 'cvc5':
        return ['--cvc5']
    if solver == 'z3':
        return ['--z3']
    raise ValueError(solver)


class JobResult:
    def __init__(self, unit, fn):
        self.unit, self.fn = unit, fn
        self.status = 'ok'          # ok | failed | undecided
        self.reason = ''
        self.obligations = []       # dicts: id, cls, desc, line, status, trace
        self.solver_s = 0.0
        self.cmds = []
        self.cfile = None
        self.cover_ok = None
        self.backend = ''
        self.cbmc_out = ''

    def failed(self):
        return [o for o in self.obligations if o['status'] == 'FAILURE']


def obligation_id(fn, prop, desc):
    cls = prop.split('.')
    cls = cls[-2] if len(cls) >= 2 else prop
    owner = prop.split('.')[0]
    d = re.sub(r'\s+', ' ', desc)
    d = re.sub(r'_wrapper\b', '', d)
    return '%s/%s/%s: %s' % (fn, owner, cls, d)


def parse_cbmc_json(out):
    try:
        data = json.loads(out)
    except Exception:
        # cbmc may emit truncated json on kill
        return None, None, 'unparsable cbmc output'
    results, status, msgs = [], None, []
    for e in data:
        if 'result' in e:
            results = e['result']
        if 'cProverStatus' in e:
            status = e['cProverStatus']
        if e.get('messageType') in ('ERROR', 'WARNING'):
            msgs.append(e.get('messageText', ''))
    return results, status, '\n'.join(msgs)


def _flatten(prefix, v, out):
    if not isinstance(v, dict):
        return
    if 'members' in v:
        for m in v['members']:
            _flatten(prefix + '.' + m.get('name', '?'), m.get('value'), out)
    elif 'elements' in v:
        for e in v['elements'][:64]:
            _flatten('%s[%sl]' % (prefix, e.get('index')), e.get('value'), out)
    else:
        out.append((prefix, v.get('data', v.get('name'))))


def trace_inputs(trace):
    """compact assignment list from a cbmc json trace: (function, lhs, value) in order; struct/array values are flattened"""
    vals = []
    for st in trace or []:
        if st.get('stepType') == 'assignment' and not st.get('hidden', False):
            lhs = st.get('lhs', '')
            v = st.get('value', {})
            if lhs.startswith('__CPROVER') or 'contracts' in lhs or lhs.startswith('return_value'):
                continue
            fn = st.get('sourceLocation', {}).get('function', '')
            if isinstance(v, dict) and ('members' in v or 'elements' in v):
                flat = []
                _flatten(lhs, v, flat)
                if len(flat) <= 80:
                    vals.extend((fn, a, b) for a, b in flat)
                else:
                    vals.append((fn, lhs, v.get('name')))
            else:
                vals.append((fn, lhs, v.get('data', v.get('name'))))
    return vals


CACHE_DIR = os.path.join(VERIF, '.vx', 'cache')
TOOLSIG = None


def cache_key(kind, text, f, unit):
    """results may be reused only for byte-identical verified text + identical tool invocation + identical tools"""
    global TOOLSIG
    if TOOLSIG is None:
        TOOLSIG = subprocess.run(['cbmc', '--version'], stdout=subprocess.PIPE).stdout.decode().strip()
    h = hashlib.sha256()
    for part in (kind, TOOLSIG, text, f.name, ' '.join(f.replace), ' '.join(f.flags), f.solver, str(f.unwind), str(f.objbits),
                 str(f.no_enforce), str(getattr(f, 'no_loop_contracts', False)) + ('rec' if getattr(f, 'rec', False) else ''), ' '.join(CBMC_CHECKS), json.dumps(unit.defines, sort_keys=True)):
        h.update(part.encode()); h.update(b'\0')
    return h.hexdigest()


def cache_get(key):
    if os.environ.get('VX_NO_CACHE'):
        return None
    try:
        return json.load(open(os.path.join(CACHE_DIR, key + '.json')))
    except Exception:
        return None


def cache_put(key, obj):
    # VX_NO_CACHE only disables *reading*: a verdict computed now is as good as any for byte-identical text later
    os.makedirs(CACHE_DIR, exist_ok=True)
    tmp = os.path.join(CACHE_DIR, '%s.%d.tmp' % (key, os.getpid()))
    json.dump(obj, open(tmp, 'w'))
    os.replace(tmp, os.path.join(CACHE_DIR, key + '.json'))


def verify_fn(unit, f, unit_text, outdir, want_cover=True):
    r = JobResult(unit.name, f.name)
    base = os.path.join(outdir, unit.name + '.' + f.name)
    cfile = base + '.c'
    text = unit_text + '\n/* ---- harness ---- */\n' + (f.harness or '')
    open(cfile, 'w').write(text)
    key = cache_key('verify', text, f, unit)
    hit = cache_get(key)
    if hit:
        r.__dict__.update(hit)
        r.cfile, r.cached = cfile, True
        return r
    r.cached = False
    r2 = _verify_fn(unit, f, text, base, cfile, outdir, r)
    if r2.status in ('ok', 'failed'):
        cache_put(key, dict(status=r2.status, reason=r2.reason, obligations=r2.obligations, solver_s=r2.solver_s, cmds=r2.cmds, backend=r2.backend))
    return r2


def _verify_fn(unit, f, text, base, cfile, outdir, r):
    r.cfile = cfile
    entry = 'h_' + f.name
    defs = ['-D%s=%s' % kv for kv in unit.defines.items()]
    rc, so, se, dt = run(['goto-cc', '--function', entry] + defs + [cfile, '-o', base + '.a.gb'], 120)
    r.cmds.append('goto-cc --function %s %s.c' % (entry, os.path.basename(base)))
    if rc != 0:
        r.status, r.reason = 'undecided', 'goto-cc failed (lowering does not compile): ' + (se + so)[-1500:]
        return r
    gi = ['goto-instrument', '--nondet-static-matching', r'.*\.c:(?!vx_).*' if False else '', '--dfcc', entry]
    gi = ['goto-instrument', '--dfcc', entry]
    if not f.no_enforce:
        # rec: the function's own recursive calls are assumed to satisfy the contract being proved (induction on the call depth, partial correctness)
        gi += ['--enforce-contract-rec' if getattr(f, 'rec', False) else '--enforce-contract', f.name]
    for c in f.replace:
        gi += ['--replace-call-with-contract', c]
    if getattr(f, 'no_loop_contracts', False):
        gi += [base + '.a.gb', base + '.b.gb']        # bounded variant: plain loops, unwound by cbmc with unwinding assertions
    else:
        gi += ['--apply-loop-contracts', base + '.a.gb', base + '.b.gb']
    rc, so, se, dt = run(gi, 300)
    r.cmds.append(' '.join(gi[:-2]).replace(outdir + '/', ''))
    if rc != 0:
        r.status, r.reason = 'undecided', 'goto-instrument failed: ' + (se + so)[-1500:]
        return r
    gitext = so + se
    cb = ['cbmc'] + CBMC_CHECKS + list(f.flags) + solver_flags(f.solver)
    if f.unwind:
        cb += ['--unwind', str(f.unwind), '--unwinding-assertions']
    if f.objbits:
        cb += ['--object-bits', str(f.objbits)]
    cb += ['--trace', '--json-ui', base + '.b.gb']
    env = dict(os.environ)
    shim = os.path.join(VERIF, '.vx', 'shim')
    if f.solver == 'z3' and os.path.isdir(shim):
        env['PATH'] = shim + ':' + env['PATH']
    rc, so, se, dt = run(cb, f.timeout, f.mem_gb, env=env)
    r.solver_s = dt
    r.backend = f.solver
    r.cmds.append(' '.join(cb[:-1]).replace(outdir + '/', '') + ' <gb>')
    if rc == -9:
        r.status, r.reason = 'undecided', 'cbmc timeout after %ds' % f.timeout
        return r
    results, status, msgs = parse_cbmc_json(so)
    if results is None or (not results and status != 'success'):
        r.status, r.reason = 'undecided', 'cbmc gave no results: rc=%s %s %s' % (rc, (msgs or '')[-800:], se[-800:])
        return r
    if re.search(r'ignoring forall|ignoring exists', so + se):
        r.status, r.reason = 'undecided', 'SAT back end ignored a quantifier'
        return r
    has_unknown = False
    clines = text.split('\n')
    for x in results:
        st = x['status']
        ln = x.get('sourceLocation', {}).get('line')
        oid = obligation_id(f.name, x['property'], x['description'])
        if ln and re.search(r'\.(precondition|postcondition|loop_invariant_base|loop_invariant_step|assertion)\.', x['property']) and str(ln).isdigit() and int(ln) <= len(clines) \
                and x.get('sourceLocation', {}).get('file', '').endswith(os.path.basename(cfile)):
            # contract clauses share one description: the clause's own text identifies the obligation
            src_line = re.sub(r'\s+', ' ', clines[int(ln) - 1]).strip()
            if src_line.startswith('__CPROVER_') or 'VX_A(' in src_line:
                oid += ' :: ' + src_line[:200]
        o = dict(id=oid, prop=x['property'], desc=x['description'],
                 line=ln, func=x.get('sourceLocation', {}).get('function'), status=st)
        if st == 'FAILURE':
            o['trace'] = trace_inputs(x.get('trace'))
        elif st != 'SUCCESS':
            has_unknown = True
        r.obligations.append(o)
    undef = [o for o in r.obligations if o['status'] == 'FAILURE' and 'undefined function should be unreachable' in (o['desc'] or '')]
    if undef:
        # the lowered text calls something the unit does not define (a helper the recipe does not know): nothing is decided about the
        # property, and the other failures of this run are consequences of the havocked return value
        r.obligations = []
        r.status, r.reason = 'undecided', 'EXTRACTION: the function calls %s, which the unit does not contain' % ', '.join(sorted({str(o['func']) for o in undef}))
        return r
    if r.failed():
        r.status = 'failed'
    elif has_unknown or status != 'success':
        r.status, r.reason = 'undecided', 'cbmc status %s with undetermined obligations: %s' % (status, msgs[-500:])
    # anti-vacuity (a): expected obligation classes present
    props = ' '.join(o['prop'] for o in r.obligations)
    if not f.no_enforce and ('%s.postcondition' % f.name) not in props and '__CPROVER_ensures' in f.contract:
        r.status, r.reason = 'undecided', 'VACUOUS: no postcondition obligation generated'
    if f.loops and 'loop_invariant_step' not in props:
        r.status, r.reason = 'undecided', 'VACUOUS: loop contract silently dropped (no loop_invariant_step obligation)'
    return r


def cover_fn(unit, f, unit_text, outdir):
    """anti-vacuity (b): the end of the function under its precondition must be reachable:
    a second binary in which every `return` of the enforced function (and its end) is preceded by assert(0)."""
    key = cache_key('cover', unit_text + (f.harness or ''), f, unit)
    hit = cache_get(key)
    if hit:
        return tuple(hit['c']), ''
    res = _cover_fn(unit, f, unit_text, outdir)
    if res[0] is not None:
        cache_put(key, dict(c=list(res[0])))
    return res


def _cover_fn(unit, f, unit_text, outdir):
    base = os.path.join(outdir, unit.name + '.' + f.name + '.cover')
    marker = '/*VX_BODY %s*/' % f.name
    j = unit_text.index(marker) + len(marker)
    e = L.match_close(unit_text, j)
    body = unit_text[j:e + 1]
    body2 = L.wrap_returns(body, '__CPROVER_assert(0, "VX_REACH");')
    text = unit_text[:j] + body2 + unit_text[e + 1:] + '\n' + (f.harness or '')
    open(base + '.c', 'w').write(text)
    entry = 'h_' + f.name
    defs = ['-D%s=%s' % kv for kv in unit.defines.items()]
    rc, so, se, dt = run(['goto-cc', '--function', entry] + defs + [base + '.c', '-o', base + '.a.gb'], 120)
    if rc != 0:
        return None, 'goto-cc failed on cover variant'
    gi = ['goto-instrument', '--dfcc', entry, '--enforce-contract-rec' if getattr(f, 'rec', False) else '--enforce-contract', f.name]
    for c in f.replace:
        gi += ['--replace-call-with-contract', c]
    gi += ['--apply-loop-contracts', base + '.a.gb', base + '.b.gb']
    rc, so, se, dt = run(gi, 300)
    if rc != 0:
        return None, 'goto-instrument failed on cover variant'
    cb = ['cbmc'] + list(f.flags) + solver_flags(f.solver if f.solver in ('sat', 'cadical', 'kissat') else 'sat')
    if f.objbits:
        cb += ['--object-bits', str(f.objbits)]
    cb += ['--json-ui', base + '.b.gb']
    rc, so, se, dt = run(cb, f.timeout, f.mem_gb)
    if rc == -9:
        return None, 'timeout'
    results, status, msgs = parse_cbmc_json(so)
    if results is None:
        return None, 'no results'
    reach = [x for x in results if x['description'] == 'VX_REACH']
    hit = [x for x in reach if x['status'] == 'FAILURE']
    return (len(hit), len(reach)), ''


def verify_unit(unit, fn_names=None, src=None, jobs=16, cover=True, outdir=None):
    src = src or L.Source(HEADER)
    outdir = outdir or scratch()
    text, info = build_unit_text(unit, src)
    fns = [f for f in unit.fns if f.harness and (fn_names is None or f.name in fn_names)]
    res = {}
    with ThreadPoolExecutor(max_workers=jobs) as ex:
        futs = {f.name: ex.submit(verify_fn, unit, f, text, outdir) for f in fns}
        cfuts = {f.name: ex.submit(cover_fn, unit, f, text, outdir) for f in fns if cover and f.cover and not f.no_enforce}
        for f in fns:
            r = futs[f.name].result()
            r.info = info[f.name]
            if f.name in cfuts:
                c, why = cfuts[f.name].result()
                r.cover_ok = c
                if r.status == 'ok':
                    if c is None:
                        r.status, r.reason = 'undecided', 'cover run failed: ' + why
                    elif c[0] == 0:
                        r.status, r.reason = 'undecided', 'VACUOUS: no return of %s reachable under its precondition/harness' % f.name
            res[f.name] = r
    return res, info
