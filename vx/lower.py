"""vx.lower -- locate functions in ctpg.hpp and lower them to C by published rules.

Nothing here knows what a function *means*: every rule is a syntactic rewrite that
counts its firings.  A rule that must fire and does not, or a target that cannot be
located exactly once, raises ExtractionBreak (=> exit 2, never a verdict).
"""
import re, hashlib


class ExtractionBreak(Exception):
    pass


# ----------------------------------------------------------------------------- text utils

def strip_comments(text):
    """Replace comments by spaces (newlines kept, so line numbers survive)."""
    out = []
    i, n = 0, len(text)
    while i < n:
        c = text[i]
        if c == '"' or c == "'":
            j = i + 1
            while j < n and text[j] != c:
                j += 2 if text[j] == '\\' else 1
            out.append(text[i:j + 1]); i = j + 1
        elif text.startswith('//', i):
            j = text.find('\n', i)
            j = n if j < 0 else j
            out.append(' ' * (j - i)); i = j
        elif text.startswith('/*', i):
            j = text.find('*/', i) + 2
            out.append(re.sub(r'[^\n]', ' ', text[i:j])); i = j
        else:
            out.append(c); i += 1
    return ''.join(out)


def match_close(text, i, open_c='{', close_c='}'):
    """text[i] == open_c ; return index of the matching close_c (string/char aware)."""
    assert text[i] == open_c, (text[i:i + 20], open_c)
    depth, n = 0, len(text)
    while i < n:
        c = text[i]
        if c == '"' or (c == "'" and not (i > 0 and text[i - 1].isalnum() and text[i+1:i+2].isalnum() and text[i+2:i+3] != "'")):
            j = i + 1
            while j < n and text[j] != c:
                j += 2 if text[j] == '\\' else 1
            i = j + 1
            continue
        if c == open_c:
            depth += 1
        elif c == close_c:
            depth -= 1
            if depth == 0:
                return i
        i += 1
    raise ExtractionBreak('unbalanced %s' % open_c)


def split_top(text, sep):
    """split at top-level occurrences of sep (outside (), [], {}, <> not tracked, strings)."""
    parts, depth, i, last, n = [], 0, 0, 0, len(text)
    while i < n:
        c = text[i]
        if c in '"\'':
            j = i + 1
            while j < n and text[j] != c:
                j += 2 if text[j] == '\\' else 1
            i = j + 1
            continue
        if c in '([{':
            depth += 1
        elif c in ')]}':
            depth -= 1
        elif depth == 0 and text.startswith(sep, i):
            parts.append(text[last:i]); i += len(sep); last = i
            continue
        i += 1
    parts.append(text[last:])
    return parts


def stmt_end(text, i):
    """index one past the end of the statement that starts at text[i] (skipping blanks)."""
    n = len(text)
    while i < n and text[i].isspace():
        i += 1
    if text[i] == '{':
        return match_close(text, i) + 1
    m = re.match(r'(if|for|while|switch)\b\s*', text[i:])
    if m:
        j = i + m.end()
        if text.startswith('constexpr', j):
            j += len('constexpr')
            while text[j].isspace():
                j += 1
        j = match_close(text, j, '(', ')') + 1
        # loop-contract clauses may sit between header and body
        while True:
            m2 = re.match(r'\s*__CPROVER_(loop_invariant|decreases|assigns)\s*', text[j:])
            if not m2:
                break
            j = match_close(text, j + m2.end(), '(', ')') + 1
        e = stmt_end(text, j)
        if m.group(1) == 'if':
            m3 = re.match(r'\s*else\b', text[e:])
            if m3:
                e = stmt_end(text, e + m3.end())
        return e
    m = re.match(r'else\b', text[i:])
    if m:
        return stmt_end(text, i + m.end())
    # simple statement: up to ';' at depth 0
    depth = 0
    while i < n:
        c = text[i]
        if c in '"\'':
            j = i + 1
            while j < n and text[j] != c:
                j += 2 if text[j] == '\\' else 1
            i = j + 1
            continue
        if c in '([{':
            depth += 1
        elif c in ')]}':
            depth -= 1
        elif c == ';' and depth == 0:
            return i + 1
        i += 1
    raise ExtractionBreak('statement without end')


# ----------------------------------------------------------------------------- locating

class Source:
    def __init__(self, path):
        self.path = path
        self.raw = open(path).read()
        self.text = strip_comments(self.raw)

    def line_of(self, pos):
        return self.text.count('\n', 0, pos) + 1

    def span(self, header_re, within=None):
        """(start, end) of the braced block following the unique match of header_re."""
        lo, hi = within if within else (0, len(self.text))
        ms = list(re.finditer(header_re, self.text[lo:hi]))
        if len(ms) != 1:
            raise ExtractionBreak('scope/function header /%s/ matched %d times (expected 1)' % (header_re, len(ms)))
        m = ms[0]
        b = self.text.index('{', lo + m.end())
        # nothing but whitespace / ctor-init / const / noexcept allowed between header and '{'
        e = match_close(self.text, b)
        return lo + m.start(), lo + m.end(), b, e

    def scope(self, chain):
        within = None
        for h in chain or []:
            s, he, b, e = self.span(h, within)
            within = (b, e + 1)
        return within

    def function(self, header_re, scope=None):
        within = self.scope(scope)
        s, he, b, e = self.span(header_re, within)
        between = self.text[he:b]
        return dict(header=self.text[s:he], between=between, body=self.text[b:e + 1],
                    line=self.line_of(s), end_line=self.line_of(e),
                    sha=hashlib.sha256(self.text[s:e + 1].encode()).hexdigest()[:16])

    def ctor(self, header_re, scope=None):
        """constructor: header, then `: m1(args), m2{args}, ...`, then the body.  Returns function()'s dict plus
        inits = [(member, args)] in textual order (R19)."""
        lo, hi = self.scope(scope) or (0, len(self.text))
        ms = list(re.finditer(header_re, self.text[lo:hi]))
        if len(ms) != 1:
            raise ExtractionBreak('constructor header /%s/ matched %d times (expected 1)' % (header_re, len(ms)))
        s, he = lo + ms[0].start(), lo + ms[0].end()
        t, i, inits = self.text, he, []
        ws = lambda k: k + (len(t[k:]) - len(t[k:].lstrip()))
        i = ws(i)
        if t[i] == ':':
            i += 1
            while True:
                i = ws(i)
                m = re.match(r'(\w+)\s*([({])', t[i:])
                if not m:
                    raise ExtractionBreak('constructor /%s/: mem-initializer not of the form member(args) or member{args} at %r' % (header_re, t[i:i + 40]))
                op = i + m.end() - 1
                cl = match_close(t, op, m.group(2), ')' if m.group(2) == '(' else '}')
                inits.append((m.group(1), t[op + 1:cl].strip()))
                i = ws(cl + 1)
                if t[i] == ',':
                    i += 1
                    continue
                break
        if t[i] != '{':
            raise ExtractionBreak('constructor /%s/: body expected at %r' % (header_re, t[i:i + 40]))
        b, e = i, match_close(t, i)
        return dict(header=t[s:he], between=t[he:b], body=t[b:e + 1], inits=inits, line=self.line_of(s), end_line=self.line_of(e),
                    sha=hashlib.sha256(t[s:e + 1].encode()).hexdigest()[:16])

    def grab(self, regex, group=1, scope=None):
        """unique regex match anywhere (or in scope); returns group."""
        lo, hi = self.scope(scope) or (0, len(self.text))
        ms = list(re.finditer(regex, self.text[lo:hi]))
        if len(ms) != 1:
            raise ExtractionBreak('pattern /%s/ matched %d times (expected 1)' % (regex, len(ms)))
        return ms[0].group(group)


# ----------------------------------------------------------------------------- rules

class Log:
    def __init__(self):
        self.fired = []

    def add(self, name, n):
        self.fired.append((name, n))


class Rule:
    name = 'rule'

    def apply(self, text, log):
        raise NotImplementedError


class S(Rule):
    """regex substitution with a minimum (and optional maximum) number of firings"""

    def __init__(self, pat, repl, min=1, max=None, name=None, flags=0):
        self.pat, self.repl, self.min, self.max, self.flags = pat, repl, min, max, flags
        self.name = name or ('S:' + pat[:40])

    def apply(self, text, log):
        text, n = re.subn(self.pat, self.repl, text, flags=self.flags)
        log.add(self.name, n)
        if n < self.min or (self.max is not None and n > self.max):
            raise ExtractionBreak('rule %s fired %d times (expected %s..%s)' % (self.name, n, self.min, self.max))
        return text


class Call(Rule):
    """PREFIX(args) -> repl(args) where PREFIX is a regex ending just before '(' .
    repl is a format string with {args} and optional {0},{1} (top-level comma split) and
    {m1}.. for groups of the prefix regex."""

    def __init__(self, prefix_re, repl, min=1, name=None):
        self.prefix_re, self.repl, self.min = prefix_re, repl, min
        self.name = name or ('Call:' + prefix_re[:40])

    def apply(self, text, log):
        n = 0
        pos = 0
        rx = re.compile(self.prefix_re + r'\s*\(')
        while True:
            m = rx.search(text, pos)
            if not m:
                break
            op = m.end() - 1
            cl = match_close(text, op, '(', ')')
            args = text[op + 1:cl]
            parts = [a.strip() for a in split_top(args, ',')] if args.strip() else []
            kw = {'args': args, 'nargs': len(parts)}
            for gi, g in enumerate(m.groups(), 1):
                kw['m%d' % gi] = g
            kw['m0'] = m.group(0)[:-1]
            rep = self.repl.format(*parts, **kw) if not callable(self.repl) else self.repl(m, parts)
            text = text[:m.start()] + rep + text[cl + 1:]
            pos = m.start() + len(rep) if rep.find(m.group(0)) >= 0 else m.start() + 1
            n += 1
            if n > 10000:
                raise ExtractionBreak('rule %s loops' % self.name)
        log.add(self.name, n)
        if n < self.min:
            raise ExtractionBreak('rule %s fired %d times (expected >= %d)' % (self.name, n, self.min))
        return text


class Casts(Rule):
    """functional casts T(e) and static_cast<T>(e) -> ((T)(e)) for scalar type names"""
    name = 'R15:casts'
    TYPES = ['size_t', 'size8_t', 'size16_t', 'size32_t', 'size_type', 'underlying_type', 'char', 'int', 'unsigned char', 'bool']

    def apply(self, text, log):
        n = 0
        rx = re.compile(r'static_cast<\s*([\w: ]+?)\s*>\s*\(')
        while True:
            m = rx.search(text)
            if not m:
                break
            op = m.end() - 1
            cl = match_close(text, op, '(', ')')
            text = text[:m.start()] + '((' + m.group(1) + ')(' + text[op + 1:cl] + '))' + text[cl + 1:]
            n += 1
        for t in self.TYPES:
            rx = re.compile(r'(?<![\w.>)])' + re.escape(t) + r'\(')
            pos = 0
            while True:
                m = rx.search(text, pos)
                if not m:
                    break
                # do not touch declarations like "char (&x)[N]" or a preceding '(' cast "(char)(x)"
                before = text[:m.start()].rstrip()
                if before.endswith('(') and text[m.end() - 1 - len(t) - 1:m.end() - 1 - len(t)] == '(' and False:
                    pos = m.end(); continue
                op = m.end() - 1
                cl = match_close(text, op, '(', ')')
                inner = text[op + 1:cl]
                if before.endswith('((') or inner.strip() == '' or inner.strip().startswith('&'):
                    pos = m.end(); continue
                rep = '((' + t + ')(' + inner + '))'
                text = text[:m.start()] + rep + text[cl + 1:]
                pos = m.start() + 3 + len(t)
                n += 1
        log.add(self.name, n)
        return text


class Emit(Rule):
    """R10: every statement  <stream> << a << b ... ;  -> vx_emit(EV_<kind>, scalar args)
    kind = identifier made from the first string literal that contains a letter; operands that
    are string literals are dropped; the others go through the operand table."""

    def __init__(self, stream_re, operand_table, prefix='EV', min=1):
        self.stream_re, self.table, self.min, self.prefix = stream_re, operand_table, min, prefix
        self.name = 'R10:emit(%s)' % stream_re
        self.kinds = []

    def apply(self, text, log):
        n = 0
        rx = re.compile(r'(?<![\w.])(' + self.stream_re + r')\s*<<')
        pos = 0
        while True:
            m = rx.search(text, pos)
            if not m:
                break
            e = stmt_end(text, m.start())
            stmt = text[m.start():e - 1]
            ops = [o.strip() for o in split_top(stmt, '<<')][1:]
            kind = None
            args = []
            for o in ops:
                if o.startswith('"'):
                    bare = re.sub(r'\\.', ' ', o.strip('"'))
                    if kind is None and re.search(r'[A-Za-z]', bare):
                        kind = re.sub(r'\W+', '_', bare).strip('_')
                    continue
                for orx, fmt in self.table:
                    mm = re.fullmatch(orx, o, re.S)
                    if mm:
                        args.append(fmt.format(*mm.groups(), o=o))
                        break
                else:
                    raise ExtractionBreak('R10: stream operand not in the operand table: %r' % o)
            if kind is None:
                kind = 'text'
            ident = '%s_%s' % (self.prefix, kind)
            if ident not in self.kinds:
                self.kinds.append(ident)
            while len(args) < 3:
                args.append('0')
            if len(args) > 3:
                raise ExtractionBreak('R10: more than 3 payload operands in %r' % stmt)
            rep = 'vx_emit(%s, %s);' % (ident, ', '.join(args))
            text = text[:m.start()] + rep + text[e:]
            pos = m.start() + len(rep)
            n += 1
        log.add(self.name, n)
        if n < self.min:
            raise ExtractionBreak('rule %s fired %d times (expected >= %d)' % (self.name, n, self.min))
        return text


class RangeFor(Rule):
    """R15: for (<decl> : <expr>) stmt  ->  indexed loop.
    table: list of (expr_regex, length_expr, elem_fmt, ctype, by_ref)"""

    def __init__(self, table, min=1):
        self.table, self.min = table, min
        self.name = 'R15:range-for'

    def apply(self, text, log):
        n = 0
        rx = re.compile(r'for\s*\(\s*(?:const\s+)?([\w:]+)\s*(&?)\s*(\w+)\s*:\s*([^)]+?)\s*\)')
        while True:
            m = rx.search(text)
            if not m:
                break
            var, expr = m.group(3), m.group(4)
            for erx, length, elem, ctype, by_ref in self.table:
                if re.fullmatch(erx, expr):
                    break
            else:
                raise ExtractionBreak('R15: range-for over %r not in the table' % expr)
            idx = 'vx_i%d' % n
            # loop-contract clauses directly after the header stay attached to the header
            lc = ''
            p0 = m.end()
            while True:
                m2 = re.match(r'\s*__CPROVER_(loop_invariant|decreases|assigns)\s*', text[p0:])
                if not m2:
                    break
                c = match_close(text, p0 + m2.end(), '(', ')') + 1
                lc += text[p0:c].replace('VX_IDX', idx); p0 = c
            e = stmt_end(text, p0)
            body = text[p0:e]
            el = elem.format(i=idx, c=expr)
            if by_ref:
                body = re.sub(r'(?<![\w.>])' + var + r'(?!\w)', '(*%s)' % var, body)
                decl = '%s* %s = &(%s);' % (ctype, var, el)
            else:
                decl = '%s %s = %s;' % (ctype, var, el)
            rep = 'for (size_t %s = 0; %s < (%s); ++%s)%s { %s %s }' % (idx, idx, length.format(c=expr), idx, lc, decl, body)
            text = text[:m.start()] + rep + text[e:]
            n += 1
        log.add(self.name, n)
        if n < self.min:
            raise ExtractionBreak('rule %s fired %d times (expected >= %d)' % (self.name, n, self.min))
        return text


class Deref(Rule):
    """R5: a reference parameter/local 'x' becomes pointer: uses -> (*x) (not in its declaration)"""

    def __init__(self, var, min=1):
        self.var, self.min = var, min
        self.name = 'R5:deref(%s)' % var

    def apply(self, text, log):
        text, n = re.subn(r'(?<![\w.>])' + self.var + r'(?!\w)', '(*%s)' % self.var, text)
        log.add(self.name, n)
        if n < self.min:
            raise ExtractionBreak('rule %s fired %d times' % (self.name, n))
        return text


def contract_spans(text):
    """(start, end) of every __CPROVER_<clause>( ... ) region"""
    spans = []
    for m in re.finditer(r'__CPROVER_(loop_invariant|decreases|assigns|requires|ensures|assert|assume)\s*\(', text):
        if spans and m.start() < spans[-1][1]:
            continue
        spans.append((m.start(), match_close(text, m.end() - 1, '(', ')') + 1))
    return spans


def in_spans(pos, spans):
    return any(a <= pos < b for a, b in spans)


class Bound(Rule):
    """R9: name[e1][e2].. -> name[vx_idx(e1, d1)][vx_idx(e2, d2)]..  (skips contract clauses)"""

    def __init__(self, name_re, dims, min=0):
        self.name_re, self.dims, self.min = name_re, dims, min
        self.name = 'R9:bound(%s)' % name_re

    def apply(self, text, log):
        n, pos = 0, 0
        rx = re.compile(r'(?<![\w>])(' + self.name_re + r')\s*\[')
        while True:
            m = rx.search(text, pos)
            if not m:
                break
            if in_spans(m.start(), contract_spans(text)):
                pos = m.end(); continue
            out = m.group(1)
            p0 = m.end() - 1
            k = 0
            while k < len(self.dims) and p0 < len(text) and text[p0] == '[':
                cl = match_close(text, p0, '[', ']')
                out += '[vx_idx(%s, %s)]' % (text[p0 + 1:cl], self.dims[k])
                p0 = cl + 1
                k += 1
            if k != len(self.dims):
                raise ExtractionBreak('R9: %s subscripted %d times, declared with %d dimensions' % (m.group(1), k, len(self.dims)))
            text = text[:m.start()] + out + text[p0:]
            pos = m.start() + len(m.group(1)) + 1      # continue inside the first subscript (nested arrays)
            n += 1
        log.add(self.name, n)
        if n < self.min:
            raise ExtractionBreak('rule %s fired %d times' % (self.name, n))
        return text


GENERIC = [
    S(r'\bconstexpr\s+', '', min=0, name='R1:constexpr'),
    S(r'\[\[maybe_unused\]\]\s*', '', min=0, name='R1:maybe_unused'),
    S(r'\bstd::size_t\b', 'size_t', min=0, name='R2:std::size_t'),
    S(r'\bstd::(u?int\d+_t)\b', r'\1', min=0, name='R2:std::intN'),
    Casts(),
    S(r'\b(utils|stdex|regex|meta|detail|buffers)::', r'\1__', min=0, name='R2:ns'),
    S(r'\b(parse_table_entry_kind|associativity)::', r'\1__', min=0, name='R2:enum'),
    S(r'\bnullptr\b', 'NULL', min=0, name='R2:nullptr'),
    S(r'throw\s+std::runtime_error\s*\(\s*"([^"]*)"\s*\)', lambda m: 'VX_THROW(%d /* %s */)' % (sum(map(ord, m.group(1))) % 9973, m.group(1)), min=0, name='R11:throw'),
    S(r'\bauto\s+(\w+)\s*=\s*0u\b', r'unsigned \1 = 0u', min=0, name='R15:auto-0u'),
    S(r'\bstd::move\s*\(', '(', min=0, name='R13:move'),
]


def lower(body, rules, log=None):
    log = log or Log()
    for r in list(rules) + GENERIC:
        body = r.apply(body, log)
    return body, log


# ----------------------------------------------------------------------------- weaving

def loop_headers(body):
    """positions just after the ')' of each for/while header, in textual order
    (do-while's trailing while is excluded)."""
    res = []
    for m in re.finditer(r'(?<![\w.])(for|while)\s*\(', body):
        # skip "} while (...);" of do-while
        before = body[:m.start()].rstrip()
        cl = match_close(body, m.end() - 1, '(', ')')
        if m.group(1) == 'while' and before.endswith('}') and body[cl + 1:].lstrip().startswith(';'):
            continue
        res.append(cl + 1)
    return res


def weave_loops(body, loops, fname):
    hs = loop_headers(body)
    for k in loops:
        if k >= len(hs):
            raise ExtractionBreak('%s: loop contract for ordinal %d but only %d loops found' % (fname, k, len(hs)))
    for k in sorted(loops, reverse=True):
        body = body[:hs[k]] + '\n' + loops[k].strip() + '\n' + body[hs[k]:]
    return body, len(hs)


def loop_body_span(body, ordinal):
    """(open, close) brace positions of the body of loop #ordinal (body must be braced)"""
    hs = loop_headers(body)
    if ordinal >= len(hs):
        raise ExtractionBreak('loop %d not found' % ordinal)
    j = hs[ordinal]
    while True:
        m2 = re.match(r'\s*__CPROVER_(loop_invariant|decreases|assigns)\s*', body[j:])
        if not m2:
            break
        j = match_close(body, j + m2.end(), '(', ')') + 1
    while body[j].isspace():
        j += 1
    if body[j] != '{':
        raise ExtractionBreak('loop %d body is not a braced block' % ordinal)
    return j, match_close(body, j)


def weave_points(body, points, fname):
    """points: list of dict(at=regex, code=str, where='before'|'after'|'before-stmt'|'after-stmt', min=1, max=None)"""
    for p in points:
        if p.get('where') == 'fn-end':
            body = wrap_returns(body, p['code'])
            continue
        if p.get('where') in ('loop-begin', 'loop-end'):
            a, b = loop_body_span(body, p['loop'])
            pos = a + 1 if p['where'] == 'loop-begin' else b
            body = body[:pos] + ' ' + p['code'] + ' ' + body[pos:]
            continue
        ms = list(re.finditer(p['at'], body))
        mn, mx = p.get('min', 1), p.get('max')
        if len(ms) < mn or (mx is not None and len(ms) > mx):
            raise ExtractionBreak('%s: weave point /%s/ matched %d times (expected %s..%s)' % (fname, p['at'], len(ms), mn, mx))
        for m in reversed(ms):
            w = p.get('where', 'before')
            if w == 'before':
                # statement-level: wrap in braces so an unbraced if/else/loop body stays one statement
                e = stmt_end(body, m.start())
                st = body[m.start():e]
                body = body[:m.start()] + '{ ' + p['code'] + ' ' + st + ' }' + body[e:]
                continue
            if w == 'after-stmt':
                # not wrapped (the statement may be a declaration); it must then be a statement of a block
                prev = body[:m.start()].rstrip()
                if not prev or prev[-1] not in ';{}':
                    raise ExtractionBreak('%s: weave after-stmt /%s/: statement is not directly inside a block' % (fname, p['at']))
                e = stmt_end(body, m.start())
                body = body[:e] + ' ' + p['code'] + ' ' + body[e:]
                continue
            if w == 'raw-before':
                pos = m.start()
            elif w == 'after':
                pos = m.end()
            else:
                raise ExtractionBreak('bad weave where')
            body = body[:pos] + ' ' + p['code'] + ' ' + body[pos:]
    return body


def wrap_returns(body, code):
    """precede every `return` statement (and the end of the function) by code, keeping statement structure"""
    out, pos = [], 0
    for m in list(re.finditer(r'(?<![\w.])return\b', body)):
        if m.start() < pos:
            continue
        e = stmt_end(body, m.start())
        out.append(body[pos:m.start()] + '{ ' + code + ' ' + body[m.start():e] + ' }')
        pos = e
    out.append(body[pos:])
    b = ''.join(out)
    return b[:b.rindex('}')] + code + ' }'
