"""vx.native -- native programs against the real header: known-finding witnesses and counterexample replay twins."""
import os, re, subprocess, hashlib, tempfile
from . import core

def INC():
    """include directory that makes <ctpg/ctpg.hpp> resolve to the header under verification"""
    h = os.path.abspath(core.HEADER)
    if h.endswith(os.path.join('ctpg', 'ctpg.hpp')):
        return os.path.dirname(os.path.dirname(h))
    d = os.path.join(core.scratch(), 'inc')
    os.makedirs(os.path.join(d, 'ctpg'), exist_ok=True)
    link = os.path.join(d, 'ctpg', 'ctpg.hpp')
    if not os.path.exists(link):
        os.symlink(h, link)
    return d


def _compile_run(cpp_path, flags, mode, timeout=300):
    exe = os.path.join(core.scratch(), 'w_' + hashlib.sha256((cpp_path + ' '.join(flags)).encode()).hexdigest()[:10])
    cxx = 'clang++' if '--clang' in flags else 'g++'
    flags = [f for f in flags if f != '--clang']
    cmd = [cxx, '-std=c++17', '-O1', '-DCTPG_VERIF', '-I', INC(), '-I', os.path.join(core.VERIF, 'replay')] + flags + [cpp_path, '-o', exe]
    try:
        p = subprocess.run(cmd, stdout=subprocess.PIPE, stderr=subprocess.STDOUT, timeout=timeout)
    except subprocess.TimeoutExpired:
        return None, 'compile timeout'
    out = p.stdout.decode(errors='replace')
    if mode == 'compile-fails':
        # the defect manifests as "not a constant expression": compile failure == manifest
        return (p.returncode != 0), out[-2000:]
    if p.returncode != 0:
        return None, 'witness does not compile: ' + out[-2000:]
    try:
        r = subprocess.run([exe], stdout=subprocess.PIPE, stderr=subprocess.STDOUT, timeout=120)
    except subprocess.TimeoutExpired:
        return True, 'native run timed out (non-termination)'
    return (r.returncode != 0), r.stdout.decode(errors='replace')[-3000:]


def parse_meta(text):
    m = re.search(r'//\s*vx-witness:(.*)', text)
    meta = dict(mode='run', flags=[])
    if m:
        for kv in m.group(1).split():
            k, _, v = kv.partition('=')
            if k == 'flags':
                meta['flags'] = [x for x in v.split(',') if x]
            else:
                meta[k] = v
    return meta


def run_witness(rel):
    """returns (manifests: bool, output).  A witness that cannot be built counts as *not* manifesting
    (so the obligation it would excuse is reported)."""
    path = os.path.join(core.VERIF, rel)
    meta = parse_meta(open(path).read())
    ok, out = _compile_run(path, meta['flags'], meta['mode'])
    return bool(ok), out


def run_program_text(text, flags):
    path = os.path.join(core.scratch(), 'replay_%s.cpp' % hashlib.sha256(text.encode()).hexdigest()[:10])
    open(path, 'w').write(text)
    meta = parse_meta(text)
    ok, out = _compile_run(path, list(flags) + meta['flags'], meta['mode'])
    return bool(ok), out


def replay(unit, f, o, src):
    """counterexample -> native run against the real header, if the function has a twin"""
    tw = getattr(f, 'twin', None)
    if not tw:
        return dict(reproduced=False, reason='no native twin for %s; verifier counterexample attached' % f.name)
    try:
        text = tw(o)
    except Exception as e:
        return dict(reproduced=False, reason='twin could not be instantiated from the counterexample: %r' % e)
    if text is None:
        return dict(reproduced=False, reason='counterexample not expressible through the public API')
    ok, out = run_program_text(text, [])
    return dict(reproduced=bool(ok), program=text, output=out[-2000:])


# ----------------------------------------------------------------------------- counterexample -> inputs
def trace_vals(o, fn):
    """last value assigned to each variable of harness function `fn` in the verifier's counterexample"""
    vals = {}
    for f, lhs, val in o.get('trace', []):
        if f == fn and val is not None:
            vals[lhs] = val
    return vals


def to_int(v, default=0):
    if v is None:
        return default
    s = str(v).strip()
    if s in ('TRUE', 'True'):
        return 1
    if s in ('FALSE', 'False'):
        return 0
    if s.startswith("'") and s.endswith("'") and len(s) >= 3:
        body = s[1:-1]
        if body.startswith('\\') and len(body) > 1:
            try:
                return int(body[1:], 8)
            except ValueError:
                return {'n': 10, 't': 9, 'r': 13, '0': 0, '\\': 92, "'": 39}.get(body[1], ord(body[1]))
        return ord(body[0])
    import re as _re
    m = _re.match(r'^(-?\d+)', s)
    return int(m.group(1)) if m else default


TWIN_HEAD = '''// vx-witness: mode=run
// native replay of a CBMC counterexample against the real header: exit 1 = the postcondition is violated natively
#include <ctpg/ctpg.hpp>
#include <cstdio>
#include <cstdint>
using namespace ctpg;
'''
