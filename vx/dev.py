"""dev driver: python3 -m vx.dev <unit> [fn ...]"""
import sys, os
from . import core, lower
def main():
    unit = core.load_unit(sys.argv[1])
    names = sys.argv[2:] or None
    os.environ.setdefault('VX_KEEP', '1')
    if os.environ.get('VX_COMPILE_ONLY'):
        import subprocess
        try:
            text, info = core.build_unit_text(unit, lower.Source(core.HEADER))
        except lower.ExtractionBreak as e:
            print('EXTRACTION BREAK:', e); sys.exit(2)
        path = os.path.join(core.scratch(), unit.name + '.c')
        open(path, 'w').write(text + '\nint main(void){return 0;}\n')
        p = subprocess.run(['goto-cc', path, '-o', path + '.gb'], stdout=subprocess.PIPE, stderr=subprocess.STDOUT)
        print(path); print(p.stdout.decode()[-3000:]); sys.exit(p.returncode)
    try:
        res, info = core.verify_unit(unit, names, cover=not os.environ.get('VX_NOCOVER'))
    except lower.ExtractionBreak as e:
        print('EXTRACTION BREAK:', e); sys.exit(2)
    print('scratch', core.scratch())
    seen = set()
    for n, r in res.items():
        if r.reason.startswith('goto-cc failed'):
            if 'cc' in seen: continue
            seen.add('cc')
        nf = len(r.failed())
        print('%-40s %-9s obl=%d fail=%d cover=%s %.1fs %s' % (n, r.status, len(r.obligations), nf, r.cover_ok, r.solver_s, r.reason[:1500]))
        for o in r.failed()[:12]:
            print('     FAIL', o['id'], 'line', o['line'])
            if os.environ.get('VX_TRACE'):
                for t in o['trace'][-40:]: print('          ', t)
main()
