"""vx.fidelity -- the lowered C text of leaf functions is compiled natively and run against the real C++ functions on
seeded random inputs (DESIGN.md 3.2 fidelity guard).  A disagreement means the LOWERING is wrong: exit 2, never a verdict."""
import os, subprocess, hashlib
from . import core, lower as L

DRIVERS = {'utils': 'fidelity/utils.cpp', 'regex_decode': 'fidelity/regex_decode.cpp', 'dfa': 'fidelity/dfa.cpp'}


def run(unit_name, samples, seed, src=None):
    """returns (ok: bool|None, text)"""
    if unit_name not in DRIVERS:
        return None, 'no fidelity driver'
    unit = core.load_unit(unit_name)
    src = src or L.Source(core.HEADER)
    text, info = core.build_unit_text(unit, src)
    d = core.scratch()
    cfile = os.path.join(d, 'fid_%s.c' % unit_name)
    open(cfile, 'w').write('#include "%s"\n' % os.path.join(core.VERIF, 'fidelity', 'cbmc_compat.h') + text)
    obj = cfile[:-2] + '.o'
    exe = os.path.join(d, 'fid_%s' % unit_name)
    p = subprocess.run(['gcc', '-std=gnu11', '-O1', '-w', '-c', cfile, '-o', obj], stdout=subprocess.PIPE, stderr=subprocess.STDOUT)
    if p.returncode != 0:
        return None, 'lowered text does not compile natively: ' + p.stdout.decode()[-1500:]
    from . import native
    inc = native.INC()
    p = subprocess.run(['g++', '-std=c++17', '-O1', '-w', '-I', inc, os.path.join(core.VERIF, DRIVERS[unit_name]), obj, '-o', exe], stdout=subprocess.PIPE, stderr=subprocess.STDOUT)
    if p.returncode != 0:
        return None, 'fidelity driver does not build: ' + p.stdout.decode()[-1500:]
    try:
        r = subprocess.run([exe, str(samples), str(seed)], stdout=subprocess.PIPE, stderr=subprocess.STDOUT, timeout=600)
    except subprocess.TimeoutExpired:
        return None, 'fidelity run timed out'
    return (r.returncode == 0), r.stdout.decode()[-2000:]


if __name__ == '__main__':
    import sys
    ok, out = run(sys.argv[1], int(sys.argv[2]) if len(sys.argv) > 2 else 2000, int(sys.argv[3]) if len(sys.argv) > 3 else 1)
    print(ok); print(out)
