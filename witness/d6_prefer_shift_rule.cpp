// vx-witness: mode=run
// D6 (C11): the line "S/R CONFLICT, prefer shift over reduce(N)" printed rule_infos[entry.arg].r_idx, but for a shift entry
// `arg` is the TARGET STATE, not a rule: the rule named is arbitrary (and the read may leave rule_infos).
#include <ctpg/ctpg.hpp>
#include <sstream>
#include <string>
#include <cstdio>
using namespace ctpg; using namespace ctpg::buffers;
constexpr nterm<int> E("E");
constexpr char_term plus('+', 1, associativity::ltor), mul('*', 2, associativity::ltor);
constexpr char_term num('n');
constexpr parser p(E, terms(plus, mul, num), nterms(E),
    rules(E(num) >= [](char) { return 1; }, E(E, mul, E) >= [](int a, char, int b) { return a * b; }, E(E, plus, E) >= [](int a, char, int b) { return a + b; }));
int main() {
    std::stringstream ss; p.write_diag_str(ss);
    std::string s = ss.str(), key = "prefer shift over reduce(";
    int lines = 0, bad = 0;
    for (size_t pos = s.find(key); pos != std::string::npos; pos = s.find(key, pos + 1)) {
        ++lines;
        int n = std::atoi(s.c_str() + pos + key.size());
        if (n != 2) { ++bad; std::printf("line names reduce(%d); the only reduction that loses to a shift is rule 2 (E <- E + E)\n", n); }
    }
    if (lines == 0) { std::puts("no 'prefer shift' line found"); return 1; }
    return bad ? 1 : 0;
}
