// vx-witness: mode=run
// D4 (C01): the memoised FIRST/nullable recursion returns the partial set of a nonterminal that is still being computed and
// memoises the dependent result as final.  A derivable input is rejected.
#include <ctpg/ctpg.hpp>
#include <cstdio>
using namespace ctpg; using namespace ctpg::buffers;
constexpr nterm<int> S("S"), C("C"), D("D"), A("A"), B("B");
constexpr parser p(S, terms('c', 'd', 'x', 'a', 'y', 'b'), nterms(S, C, D, A, B),
    rules(S(C, A) >= [](int, int) { return 0; }, S(D, B) >= [](int, int) { return 0; }, C('c') >= [](char) { return 0; }, D('d') >= [](char) { return 0; },
          A(B, 'x') >= [](int, char) { return 0; }, A('a') >= [](char) { return 0; }, B(A, 'y') >= [](int, char) { return 0; }, B('b') >= [](char) { return 0; }));
int main() {
    auto r = p.parse(string_buffer("day"));       // S => D B => d B => d A y => d a y
    if (!r.has_value()) { std::puts("derivable input 'day' rejected"); return 1; }
    return 0;
}
