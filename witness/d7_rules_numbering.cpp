// vx-witness: mode=run
// D7 (C11): the RULES list of write_diag_str numbered rules by their position in the sorted rule table, while the action
// lines ("reduce using (N)") and the verbose trace use the source-order number: the same N denoted two different rules.
#include <ctpg/ctpg.hpp>
#include <sstream>
#include <string>
#include <cstdio>
using namespace ctpg; using namespace ctpg::buffers;
constexpr nterm<int> S("S"), A("A"), B("B");
constexpr parser p(S, terms('a', 'b'), nterms(S, A, B),
    rules(B('b') >= [](char) { return 2; }, S(A, B) >= [](int, int) { return 0; }, A('a') >= [](char) { return 1; }));
int main() {
    std::stringstream ss; p.write_diag_str(ss); std::string s = ss.str();
    // rule number 2 is  A <- a  (third rule as written); the state reached on 'a' reduces by it: "reduce using (2)"
    size_t rules = s.find("RULES"), states = s.find("STATES");
    std::string list = s.substr(rules, states - rules);
    size_t pos = list.find("\n2 ");
    if (pos == std::string::npos) { std::puts("no rule listed as 2"); return 1; }
    std::string line = list.substr(pos + 1, list.find('\n', pos + 1) - pos - 1);
    if (line.find("A <- a") == std::string::npos) { std::printf("RULES lists '%s' as rule 2, but 'reduce using (2)' means A <- a\n", line.c_str()); return 1; }
    return 0;
}
