// vx-witness: mode=run
// D5 (C08): a syntax error in a state that itself accepts the error symbol.  The documented algorithm discards
// no state in that case; the driver popped the top state before offering it the error symbol.
#include <ctpg/ctpg.hpp>
#include <cstdio>
using namespace ctpg; using namespace ctpg::ftors; using namespace ctpg::buffers;
constexpr nterm<int> root("root"); constexpr nterm<int> list("list");
constexpr parser p(root, terms('x', ';', 'y'), nterms(root, list),
    rules(root(list, ';') >= _e1, root(error, ';') >= val(-1), list() >= val(0), list(list, 'x') >= [](int sum, skip){ return sum + 1; }));
int main() {
    auto r = p.parse(string_buffer("yxx;"));      // error in state 0, and state 0 has  root <- . error ';'
    if (!r.has_value()) { std::puts("recovery failed although the current state accepts the error symbol"); return 1; }
    if (r.value() != -1) { std::puts("wrong value"); return 1; }
    return 0;
}
