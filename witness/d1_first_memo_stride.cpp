// vx-witness: mode=run
// D1 (C01): make_right_side_slice_first keyed its memo with stride max_rule_element_count although `start` ranges up to
// r_elements inclusive: slice (rule r, end) collides with (rule r+1, 0).  A derivable input is rejected.
#include <ctpg/ctpg.hpp>
#include <cstdio>
using namespace ctpg; using namespace ctpg::buffers;
constexpr nterm<int> S("S"), Z("Z"), A("A"), Y("Y");
constexpr parser p(S, terms('s', 'z', 'y'), nterms(S, Z, A, Y),
    rules(S('s', A) >= [](char, int) { return 1; }, Z('z') >= [](char) { return 1; }, A(Y, Z) >= [](int, int) { return 1; }, Y('y') >= [](char) { return 1; }));
int main() {
    auto r = p.parse(string_buffer("syz"));          // S => s A => s Y Z => s y z
    if (!r.has_value()) { std::puts("derivable input 'syz' rejected"); return 1; }
    return 0;
}
