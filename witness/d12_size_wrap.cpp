// vx-witness: mode=run
// D12 (C12): dfa_size_analyzer::rep and the {n} number parser compute in 32 bits without any check: for a{2147483649} the
// predicted automaton size wraps to 2, while the builder would append about 2^32 states into that 2-element cvector.
#include <ctpg/ctpg.hpp>
#include <cstdio>
using namespace ctpg;
constexpr auto n = regex::analyze_dfa_size("a{2147483649}");
int main() {
    if (n == 2) { std::puts("analyze_dfa_size(\"a{2147483649}\") == 2 (wrapped)"); return 1; }
    return 0;
}
