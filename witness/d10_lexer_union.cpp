// vx-witness: mode=run
// D10 (C04): the union lexer is built by the same in-place merging: with terms(regex [a-z]+, "if0") the input "zz0" is delivered
// as the keyword term "if0" (with lexeme "zz0") instead of failing at '0' after the identifier "zz".
#include <ctpg/ctpg.hpp>
#include <cstdio>
#include <string>
#include <vector>
using namespace ctpg; using namespace ctpg::buffers;
constexpr char id_pattern[] = "[a-z]+";
constexpr regex_term<id_pattern> id("id");
constexpr string_term kw("if0");
constexpr nterm<int> S("S");
static std::vector<std::string> seen;
constexpr parser p(S, terms(id, kw), nterms(S),
    rules(S(id) >= [](std::string_view sv) { seen.push_back("id:" + std::string(sv)); return 0; },
          S(kw) >= [](std::string_view sv) { seen.push_back("kw:" + std::string(sv)); return 0; }));
int main() {
    auto r = p.parse(string_buffer("zz0"));
    for (auto& s : seen) if (s == "kw:zz0") { std::puts("input \"zz0\" delivered as keyword term \"if0\" with lexeme \"zz0\""); return 1; }
    (void)r; return 0;
}
