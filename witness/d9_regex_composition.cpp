// vx-witness: mode=run
// D9 (C03): cat/star/plus/opt/alt are implemented by in-place state merging, not a subset construction: for several patterns
// the automaton does not accept the pattern's language.
#include <ctpg/ctpg.hpp>
#include <cstdio>
using namespace ctpg;
constexpr char p1[] = "a*a";  constexpr char p2[] = "a?a";  constexpr char p3[] = "a+a";  constexpr char p4[] = "(a|b)*abb";
constexpr regex::expr<p1> r1; constexpr regex::expr<p2> r2; constexpr regex::expr<p3> r3; constexpr regex::expr<p4> r4;
int main() {
    int bad = 0;
    if (!r1.match("a"))   { std::puts("a*a rejects \"a\""); ++bad; }
    if (!r2.match("a"))   { std::puts("a?a rejects \"a\""); ++bad; }
    if (r3.match("a"))    { std::puts("a+a accepts \"a\""); ++bad; }
    if (!r4.match("abb")) { std::puts("(a|b)*abb rejects \"abb\""); ++bad; }
    return bad ? 1 : 0;
}
