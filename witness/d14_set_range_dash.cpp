// vx-witness: mode=run flags=-g
// D14 (C03): string_view_to_subset does not step over the upper end of a range: after `a-c` it re-reads `c` as the start of the next item,
// so in [a-c-e] (items: range a-c, the character '-', the character 'e' -- this is how the library's own regex_lexer::match_range_item
// divides the set) it builds a second range c-e.  The matcher then accepts "d" and rejects "-".
#include <ctpg/ctpg.hpp>
#include <cstdio>
using namespace ctpg;
constexpr char pat[] = "[a-c-e]";
constexpr char pat2[] = "[^0-9-x]";
int main() {
    regex::expr<pat> r; regex::expr<pat2> r2;
    int bad = 0;
    for (int c = 1; c < 256; ++c) {
        char s[2] = { (char)c, 0 };
        bool want = (c >= 'a' && c <= 'c') || c == '-' || c == 'e';
        if (r.match(s) != want) { ++bad; std::printf("[a-c-e] %s byte 0x%02x ('%c')\n", want ? "rejects" : "accepts", c, c >= 32 && c < 127 ? c : '?'); }
        bool want2 = !((c >= '0' && c <= '9') || c == '-' || c == 'x');
        if (r2.match(s) != want2) { ++bad; std::printf("[^0-9-x] %s byte 0x%02x\n", want2 ? "rejects" : "accepts", c); }
    }
    return bad ? 1 : 0;
}
