// vx-witness: mode=compile-fails flags=-fsyntax-only
// D2b (C06/C07): regex::expr::match computed buf.begin() + 65535 on a failed match (and dereferenced it for the message):
// undefined behaviour; a constexpr non-match is not a constant expression.
#include <ctpg/ctpg.hpp>
using namespace ctpg;
constexpr char pattern[] = "ab";
constexpr regex::expr<pattern> r;
constexpr bool m = r.match("ax");
static_assert(!m);
int main() { return 0; }
