// vx-witness: mode=run flags=-fsanitize=address,-fno-omit-frame-pointer,-g
// D8 (C06/C12): with a cstring_buffer the two parse stacks are cvector<.., N + EmptyRulesCount + 1>; several nullable
// symbols in front of a token need more room than that, and cvector::push_back has no capacity check.
#include <ctpg/ctpg.hpp>
#include <cstdio>
using namespace ctpg; using namespace ctpg::buffers;
constexpr nterm<int> S("S"); constexpr nterm<int> E("E");
constexpr parser p(S, terms('a'), nterms(S, E),
    rules(S(E, E, E, E, 'a') >= [](int, int, int, int, char) { return 1; }, E() >= []() { return 0; }));
int main() {
    auto r = p.parse(cstring_buffer("a"));   // needs 6 states on the stack; capacity is 2 + 1 + 1 = 4
    std::printf("%d\n", r.has_value() ? r.value() : -1);
    return 0;                                 // ASan aborts (non-zero) on the overflowing push
}
