// vx-witness: mode=compile-fails flags=--clang,-fsyntax-only
// D2 (C06/C07): on a lexical error get_current_term computed current_it + 65535 (the failure sentinel length)
// before testing for failure: undefined pointer arithmetic, so a constexpr parse of a rejected input is not a
// constant expression.  Manifests as a compile error; compiles once the defect is repaired.
#include <ctpg/ctpg.hpp>
using namespace ctpg;
using namespace ctpg::buffers;
constexpr nterm<int> root("root");
constexpr char_term a('a');
constexpr parser p(root, terms(a), nterms(root), rules(root(a) >= [](char) { return 1; }));
constexpr auto r = p.parse(cstring_buffer("a?"));
static_assert(!r.has_value());
int main() { return 0; }
