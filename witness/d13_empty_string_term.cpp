// vx-witness: mode=run flags=-fsanitize=address,-g
// D13 (C12): string_term<1> (the empty string "") declares dfa_size = (DataSize - 1) * 2 = 0, but add_term_data_to_dfa always
// starts with primary_char(str[0]) and appends 2 states: the lexer automaton (capacity = sum of dfa_size) overflows at construction.
#include <ctpg/ctpg.hpp>
#include <cstdio>
using namespace ctpg; using namespace ctpg::buffers;
constexpr nterm<int> S("S");
constexpr string_term empty_kw("");
int main() {
    parser p(S, terms(empty_kw, 'a'), nterms(S), rules(S('a') >= [](char) { return 1; }));   // run-time construction
    auto r = p.parse(string_buffer("a"));
    std::printf("%d\n", r.has_value() ? r.value() : -1);
    return 0;       // ASan aborts (non-zero) on the out-of-bounds push
}
