// vx-witness: mode=run
// D3 (C01): closure() memoises in closures[sit] only the items that were NEW to the first state analysed; replayed in another
// state the items that happened to be present there already are missing.  A derivable input is rejected, no conflict reported.
#include <ctpg/ctpg.hpp>
#include <cstdio>
using namespace ctpg; using namespace ctpg::buffers;
constexpr nterm<int> S("S"), P("P"), Q("Q"), C("C");
constexpr parser p(S, terms('e', 'd', 'x', 'y', 'c'), nterms(S, P, Q, C),
    rules(S(P) >= [](int) { return 0; }, S(Q) >= [](int) { return 0; }, S('e', Q) >= [](char, int) { return 0; },
          P('d', C, 'x') >= [](char, int, char) { return 0; }, Q('d', C, 'x', 'y') >= [](char, int, char, char) { return 0; }, C('c') >= [](char) { return 0; }));
int main() {
    auto r = p.parse(string_buffer("edcxy"));     // S => e Q => e d C x y => e d c x y
    if (!r.has_value()) { std::puts("derivable input 'edcxy' rejected"); return 1; }
    return 0;
}
