#!/usr/bin/env python3
"""writes MANIFEST.json from obligations/props.py (claimed) and the not-applicable list below"""
import json, os, sys
ROOT = os.path.dirname(os.path.dirname(os.path.abspath(__file__)))
sys.path.insert(0, ROOT)
from obligations import props as P

NOT_APPLICABLE = {
}
PENDING = {  # not yet claimed: no check is registered until the unit exists
}
ALL = ['C%02d' % i for i in range(1, 20)]

checks = []
for pid in ALL:
    if pid in P.PROPS:
        sp = P.PROPS[pid]
        checks.append(dict(
            property_id=pid,
            quick_cmd='./check %s --tier quick' % pid,
            thorough_cmd='./check %s --tier thorough' % pid,
            evidence_file='evidence/%s.json' % pid,
            replay_cmd_template='./check %s --replay {path}' % pid,
            engine='vx',
            level_claimed=dict(category='proof', text=sp['claim'] + '.  Decided by CBMC discharging every obligation generated from function and loop contracts woven into the functions extracted from /repo on this run; unbounded in iterations (loop invariants), parametric in sizes up to stated maxima.',
                               design_ref='DESIGN.md 5 (%s)' % pid),
            level_note='; '.join(sp.get('assumptions', [])),
            technique='CBMC function/loop contracts (goto-instrument --dfcc) on mechanically extracted and lowered source'))
na = []
for pid in ALL:
    if pid not in P.PROPS:
        na.append(dict(property_id=pid, reason=NOT_APPLICABLE.get(pid) or PENDING.get(pid) or 'no contract-based check has been built for this property yet; it is not claimed'))
man = dict(version=1, setup_cmd='./check --setup',
           hooks=dict(guard='CTPG_VERIF', enable='-DCTPG_VERIF (native witness/replay builds only; verification itself needs no hook: contracts are woven into the extracted copy)',
                      baseline_off_cmd='cmake -G Ninja -S /repo -B /repo/_build && cmake --build /repo/_build && ctest --test-dir /repo/_build -j8 --timeout 900',
                      source_commits=[], add_only=True),
           engines=[dict(name='vx', path='vx/', serves_properties=[c['property_id'] for c in checks],
                         kind_free_text='extract (locate + lower by published rules) -> weave sidecar contracts -> goto-cc / goto-instrument --dfcc / cbmc per function -> decide')],
           checks=checks, not_applicable=na,
           notes='exit 2 = undecided (extraction break, timeout, vacuity); never reported as a violation. known_findings.jsonl lists recorded defects and fix: commits.')
json.dump(man, open(os.path.join(ROOT, 'MANIFEST.json'), 'w'), indent=1)
print('claimed', [c['property_id'] for c in checks]); print('not applicable', [n['property_id'] for n in na])
