#!/usr/bin/env python3
"""run the registered quick check of each seeded change's property against a patched copy of the header.
usage: eval_seeds.py [seed-id ...]   -> prints one line per seed and writes seeded/RESULTS.json"""
import os, sys, json, subprocess, shutil, tempfile
ROOT = os.path.dirname(os.path.dirname(os.path.abspath(__file__)))
seeds = sys.argv[1:] or sorted(d for d in os.listdir(os.path.join(ROOT, 'seeded')) if os.path.isdir(os.path.join(ROOT, 'seeded', d)))
resfile = os.path.join(ROOT, 'seeded', 'RESULTS.json')
results = {}
if seeds == ['--aggregate']:
    for d in sorted(os.listdir(os.path.join(ROOT, 'seeded'))):
        rp = os.path.join(ROOT, 'seeded', d, 'result.json')
        if os.path.exists(rp):
            results[d] = json.load(open(rp))
    json.dump(results, open(resfile, 'w'), indent=1)
    for k, v in results.items():
        print(k, 'CAUGHT' if v['caught'] else 'MISSED', {p: c['rc'] for p, c in v['checks'].items()})
    sys.exit(0)
for sid in seeds:
    d = os.path.join(ROOT, 'seeded', sid)
    meta = json.load(open(os.path.join(d, 'meta.json')))
    tmp = tempfile.mkdtemp(prefix='seedhdr.', dir='/var/tmp')
    try:
        os.makedirs(os.path.join(tmp, 'include/ctpg'))
        shutil.copy('/repo/include/ctpg/ctpg.hpp', os.path.join(tmp, 'include/ctpg/ctpg.hpp'))
        p = subprocess.run(['patch', '-p1', '-s', '-i', os.path.join(d, 'patch.diff')], cwd=tmp, stdout=subprocess.PIPE, stderr=subprocess.STDOUT)
        if p.returncode != 0:
            print(sid, 'PATCH-FAILED', p.stdout.decode()[:200]); continue
        props = [meta['property']] + meta.get('also_check', [])
        out = {}
        for prop in props:
            env = dict(os.environ, VX_HEADER=os.path.join(tmp, 'include/ctpg/ctpg.hpp'), VX_EVIDENCE_DIR=tmp)
            r = subprocess.run([os.path.join(ROOT, 'check'), prop, '--tier', 'quick'], cwd=ROOT, env=env, stdout=subprocess.PIPE, stderr=subprocess.STDOUT)
            lines = [l for l in r.stdout.decode().split('\n') if l.startswith(('VIOLATION', 'UNDECIDED'))]
            out[prop] = dict(rc=r.returncode, lines=[l[:400] for l in lines[:6]])
        caught = any(v['rc'] == 1 and any(l.startswith('VIOLATION') for l in v['lines']) for v in out.values())
        results[sid] = dict(property=meta['property'], caught=caught, checks=out)
        json.dump(results[sid], open(os.path.join(d, 'result.json'), 'w'), indent=1)
        print(sid, 'CAUGHT' if caught else 'MISSED', {k: v['rc'] for k, v in out.items()}, (out[meta['property']]['lines'] or [''])[0][:230])
    finally:
        shutil.rmtree(tmp, ignore_errors=True)
json.dump(results, open(resfile, 'w'), indent=1)
