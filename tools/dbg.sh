#!/bin/bash
# dbg.sh <unit> <fn> : first failing obligation only (fast feedback)
D=/var/tmp/vx_dbg; rm -rf $D; mkdir -p $D
ROOT=$(cd "$(dirname "$0")/.." && pwd); cd $ROOT; VX_NOCOVER=1 VX_NO_CACHE=1 VERIF_SCRATCH=$D timeout ${3:-60} python3 -m vx.dev $1 $2 2>&1 | grep -E "goto-cc failed|EXTRACTION|goto-instrument failed" -A 6 | head -20
F=$(ls -d $D/vx.* | head -1); cd $F || exit
OB=$(grep -o "objbits=[0-9]*" $ROOT/contracts/$1.spec | head -1 | cut -d= -f2)
timeout ${4:-600} cbmc --bounds-check --pointer-check --pointer-overflow-check --signed-overflow-check --unsigned-overflow-check --div-by-zero-check --pointer-primitive-check ${OB:+--object-bits $OB} $1.$2.b.gb --stop-on-fail 2>&1 | grep -E "^Violated property|VERIFICATION|error" -A 4 | cut -c1-500
