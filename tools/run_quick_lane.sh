#!/bin/bash
cd /verif
L=$1; shift
for P in "$@"; do
  /usr/bin/time -f "wall[$P]=%es" env VX_NO_CACHE=1 ./check $P --tier quick > /var/tmp/q_$P.log 2>&1
  rc=$?
  echo "rc[$P]=$rc $(grep -E '^wall' /var/tmp/q_$P.log | tail -1)" >> /var/tmp/quick_$L.log
done
echo "lane $L done" >> /var/tmp/quick_$L.log
