#!/bin/bash
# usage: run_tests.sh <source-dir> [build-dir]   -- configure+build the repository's test suite and run it (guard off)
SRC=${1:-/repo}; BLD=${2:-/var/tmp/ctpg_build.$$}
set -e
cmake -G Ninja -S "$SRC" -B "$BLD" -DCMAKE_BUILD_TYPE=RelWithDebInfo > "$BLD.cfg.log" 2>&1 || { cat "$BLD.cfg.log" | tail -20; exit 3; }
cmake --build "$BLD" -j16 > "$BLD.build.log" 2>&1 || { tail -30 "$BLD.build.log"; echo BUILD-FAILED; exit 3; }
set +e
ctest --test-dir "$BLD" -j8 --timeout 900 2>&1 | tail -4
rc=${PIPESTATUS[0]}
[ -z "$2" ] && rm -rf "$BLD" "$BLD.cfg.log" "$BLD.build.log"
exit $rc
