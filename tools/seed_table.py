#!/usr/bin/env python3
"""aggregate seeded/<id>/result.json -> seeded/RESULTS.json, set expected_caught_by in meta.json, print the DESIGN.md table"""
import os, json, re
ROOT = os.path.dirname(os.path.dirname(os.path.abspath(__file__)))
sd = os.path.join(ROOT, 'seeded')
WHY_MISSED = {
    'C16-g': 'adds a range-for inside dfa_match\'s matching loop: a new nested loop has no loop contract, goto-instrument refuses the function: UNDECIDED (exit 2), not a verdict',
    'C17-h': 'the change is in the rule list of the regex grammar (`number(regex_digit_09)` -> `number()`), i.e. in DSL data, not in a function: that the regex grammar refuses `a{}` is C01 applied to that grammar, not mechanised; the rule list is pinned as a pattern fact, so the check answers UNDECIDED (exit 2), not OK',
    'C14-b': 'the change is in the parameter list of the helper functor ftors::emplace_back (`Arg&&` -> `const Arg&`, so the std::move in its body copies): signature-level template machinery (C19 territory), outside the extraction',
}
rows, results = [], {}
for sid in sorted(os.listdir(sd)):
    d = os.path.join(sd, sid)
    rp, mp = os.path.join(d, 'result.json'), os.path.join(d, 'meta.json')
    if not (os.path.isdir(d) and os.path.exists(mp)):
        continue
    meta = json.load(open(mp))
    res = json.load(open(rp)) if os.path.exists(rp) else None
    results[sid] = res
    caught_by = [p for p, c in (res or {}).get('checks', {}).items() if c['rc'] == 1 and any(l.startswith('VIOLATION') for l in c['lines'])]
    meta['expected_caught_by'] = caught_by
    json.dump(meta, open(mp, 'w'), indent=1)
    ob = ''
    if caught_by:
        l = [l for l in res['checks'][caught_by[0]]['lines'] if l.startswith('VIOLATION')][0]
        m = re.search(r'obligation="([^"]*)', l)
        ob = (m.group(1) if m else '')[:110]
    first = (meta.get('needs_to_manifest') or '').strip().split('\n')
    what = next((x for x in first if x.strip() and not x.startswith('#')), '')[:130]
    status = 'caught' if caught_by else ('not evaluated' if res is None else ('undecided (exit 2)' if any(c['rc'] == 2 for c in res['checks'].values()) else 'missed'))
    rows.append('| %s | %s | %s | %s |' % (sid, status, ob.replace('|', '/') if caught_by else WHY_MISSED.get(sid, ''), what.replace('|', '/')))
json.dump(results, open(os.path.join(sd, 'RESULTS.json'), 'w'), indent=1)
print('| seed | result of the quick check of its property | failing obligation (first) / why not caught | the change (from the author\'s notes) |')
print('|------|------|------|------|')
print('\n'.join(rows))
n = len(rows); c = sum(1 for r in rows if '| caught |' in r)
print('\n%d of %d seeded changes are reported as VIOLATION by the quick check of their property.' % (c, n))
