#!/usr/bin/env python3
"""every native replay twin, instantiated from an empty counterexample, must NOT report a violation on the unchanged tree
(a twin that fails by itself would turn every verifier failure into a 'reproduced' one)."""
import os, sys, glob
ROOT = os.path.dirname(os.path.dirname(os.path.abspath(__file__)))
sys.path.insert(0, ROOT)
from vx import core, native
from concurrent.futures import ThreadPoolExecutor
jobs = []
for p in sorted(glob.glob(os.path.join(ROOT, 'units', '*.py'))):
    name = os.path.basename(p)[:-3]
    if name == 'pcommon':
        continue
    unit = core.load_unit(name)
    seen = set()
    for f in unit.fns:
        tw = getattr(f, 'twin', None)
        if tw:
            try:
                text = tw(dict(trace=[]))
            except Exception as e:
                print('%-40s twin raised %r' % (f.name, e)); continue
            if text is None or text in seen:
                continue
            seen.add(text)
            jobs.append((name, f.name, text))
bad = 0
def run(j):
    ok, out = native.run_program_text(j[2], [])
    return j, ok, out
with ThreadPoolExecutor(8) as ex:
    for j, ok, out in ex.map(run, jobs):
        st = 'FAILS-BY-ITSELF' if ok else 'quiet'
        if ok:
            bad += 1
        print('%-14s %-40s %s %s' % (j[0], j[1], st, out.strip().split('\n')[-1][:120] if ok else ''))
print('%d twins, %d fail by themselves' % (len(jobs), bad))
sys.exit(1 if bad else 0)
