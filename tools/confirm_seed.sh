#!/bin/bash
# usage: confirm_seed.sh <prop> <variant> <srcdir-with-patch.diff,demo.cpp,notes.md>
# confirms in a scratch worktree of /repo: patch applies, the 56 tests pass with it, the demo fails with it and passes without it.
P=$1; V=$2; SRC=$3; ID="$P-$V"; WT=/tmp/cs_$ID; OUT=/verif/seeded/$ID
set -u
git -C /repo worktree remove --force $WT >/dev/null 2>&1
git -C /repo worktree add --detach $WT HEAD -q || exit 3
res() { echo "$ID: $1"; git -C /repo worktree remove --force $WT >/dev/null 2>&1; rm -rf /var/tmp/cs_build_$ID*; exit ${2:-1}; }
g++ -std=c++17 -O1 -I $WT/include $SRC/demo.cpp -o /var/tmp/cs_demo_$ID.0 2>/var/tmp/cs_demo_$ID.0.log; c0=$?
if [ $c0 -eq 0 ]; then /var/tmp/cs_demo_$ID.0 >/dev/null 2>&1; r0=$?; else r0=compile-error; fi
git -C $WT apply $SRC/patch.diff || res "patch does not apply"
g++ -std=c++17 -O1 -I $WT/include $SRC/demo.cpp -o /var/tmp/cs_demo_$ID.1 2>/var/tmp/cs_demo_$ID.1.log; c1=$?
if [ $c1 -eq 0 ]; then timeout 60 /var/tmp/cs_demo_$ID.1 >/dev/null 2>&1; r1=$?; else r1=compile-error; fi
T=$(/verif/tools/run_tests.sh $WT /var/tmp/cs_build_$ID 2>&1 | tail -4 | tr '\n' ' ')
rm -f /var/tmp/cs_demo_$ID.*
[ "$r0" = "0" ] || res "demo does not pass on the unchanged tree (r0=$r0)"
[ "$r1" != "0" ] || res "demo does not fail with the change"
echo "$T" | grep -q "100% tests passed, 0 tests failed out of 56" || res "tests do not all pass with the change: $T"
mkdir -p $OUT && cp $SRC/patch.diff $SRC/demo.cpp $OUT/ && cp $SRC/notes.md $OUT/notes.md 2>/dev/null
python3 - "$P" "$ID" "$r0" "$r1" "$OUT" <<'PY'
import json, sys, re, os
P, ID, r0, r1, out = sys.argv[1:6]
notes = open(os.path.join(out, 'notes.md')).read() if os.path.exists(os.path.join(out, 'notes.md')) else ''
json.dump(dict(id=ID, property=P, source='independent sub-agent (given only the property text and a scratch worktree)',
               needs_to_manifest=notes[:1500],
               confirmed=dict(base='/repo HEAD at confirmation time', tests_with_change='100% tests passed, 0 tests failed out of 56',
                              demo_exit_without_change=r0, demo_exit_with_change=r1,
                              commands=['git apply patch.diff', 'tools/run_tests.sh <worktree>', 'g++ -std=c++17 -O1 -I <worktree>/include demo.cpp && ./a.out'])),
          open(os.path.join(out, 'meta.json'), 'w'), indent=1)
PY
res "CONFIRMED (demo: $r0 -> $r1; tests pass)" 0
