#!/bin/bash
# usage: run_thorough.sh <lane-name> <props...>
cd /verif
L=$1; shift
for P in "$@"; do
  /usr/bin/time -f "wall[$P]=%es" ./check $P --tier thorough > /var/tmp/th_$P.log 2>&1
  rc=$?
  echo "rc[$P]=$rc $(grep -E '^wall' /var/tmp/th_$P.log | tail -1)" >> /var/tmp/thorough_$L.log
done
echo "lane $L done" >> /var/tmp/thorough_$L.log
