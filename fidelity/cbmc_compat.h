/* compile the lowered C text natively: every CBMC construct is specification, not code */
#include <setjmp.h>
#define __CPROVER_requires(...)
#define __CPROVER_ensures(...)
#define __CPROVER_assigns(...)
#define __CPROVER_loop_invariant(...)
#define __CPROVER_decreases(...)
#define __CPROVER_assert(...) ((void)0)
extern jmp_buf vx_native_jmp; extern int vx_native_armed;
static inline void vx_native_assume(int c) { if (!c && vx_native_armed) longjmp(vx_native_jmp, 1); }
#define __CPROVER_assume(c) vx_native_assume((c) ? 1 : 0)
#define __CPROVER_havoc_object(x) ((void)0)
#define __CPROVER_POINTER_OFFSET(p) ((unsigned long)0)
#define __CPROVER_same_object(a, b) 1
#define __CPROVER_r_ok(...) 1
#define __CPROVER_w_ok(...) 1
