// fidelity driver, unit utils: lowered C functions (extern "C") against the real ctpg::utils functions on random inputs
#include <ctpg/ctpg.hpp>
#include <cstdio>
#include <cstdlib>
#include <cstring>
#include <random>
#include <csetjmp>
extern "C" {
  jmp_buf vx_native_jmp; int vx_native_armed = 0;
  bool vx_str_equal_abs(const char* a, const char* b) { return ctpg::utils::str_equal(a, b); }   /* find_str's abstract callee: not compared here */
  size_t utils__char_to_idx(char c); char utils__idx_to_char(size_t i); bool utils__is_printable(char c); bool utils__is_hex_digit(char c); bool utils__is_dec_digit(char c);
  bool utils__str_equal(const char*, const char*); size_t utils__find_char(char, const char*); size_t utils__str_len(const char*);
  struct utils__char_names { char arr[256][5]; }; const char* utils__char_names__name(const utils__char_names*, char);
}
using namespace ctpg;
int main(int argc, char** argv) {
  long n = argc > 1 ? atol(argv[1]) : 2000; unsigned seed = argc > 2 ? atoi(argv[2]) : 1; std::mt19937 rng(seed); long bad = 0, done = 0;
  auto rb = [&]() { return (char)(rng() & 0xff); };
  static utils__char_names names; for (int i = 0; i < 256; i++) std::memcpy(names.arr[i], utils::c_names.name((char)i), 5);
  for (long k = 0; k < n; k++) {
    char c = rb(); size_t i = rng();
    if (utils__char_to_idx(c) != utils::char_to_idx(c)) { bad++; std::printf("char_to_idx(%d)\n", c); }
    if (utils__idx_to_char(i) != utils::idx_to_char(i)) { bad++; std::printf("idx_to_char(%zu)\n", i); }
    if (utils__is_printable(c) != utils::is_printable(c) || utils__is_hex_digit(c) != utils::is_hex_digit(c) || utils__is_dec_digit(c) != utils::is_dec_digit(c)) { bad++; std::printf("is_*(%d)\n", c); }
    if (std::strcmp(utils__char_names__name(&names, c), utils::c_names.name(c)) != 0) { bad++; std::printf("char_names::name(%d)\n", c); }
    char a[12], b[12]; int la = rng() % 11, lb = rng() % 11; bool same = (rng() % 3) == 0;
    for (int j = 0; j < la; j++) a[j] = 'a' + rng() % 3; a[la] = 0;
    if (same) std::strcpy(b, a); else { for (int j = 0; j < lb; j++) b[j] = 'a' + rng() % 3; b[lb] = 0; }
    if (utils__str_equal(a, b) != utils::str_equal(a, b)) { bad++; std::printf("str_equal(%s,%s)\n", a, b); }
    char q = 'a' + rng() % 4;
    if (utils__find_char(q, a) != utils::find_char(q, a)) { bad++; std::printf("find_char(%c,%s)\n", q, a); }
    if (utils__str_len(a) != utils::str_len(a)) { bad++; std::printf("str_len(%s)\n", a); }
    done += 9;
    if (bad > 10) break;
  }
  std::printf("fidelity utils: %ld comparisons, %ld disagreements\n", done, bad);
  return bad ? 1 : 0;
}
