// fidelity driver, unit regex_decode
#include <ctpg/ctpg.hpp>
#include <cstdio>
#include <cstdlib>
#include <random>
#include <csetjmp>
#include <string>
extern "C" {
  jmp_buf vx_native_jmp; int vx_native_armed = 0;
  struct vx_sv { const char* p; size_t n; };
  char regex__hex_digits_to_char(char, char); char regex__regex_char(vx_sv, size_t*);
}
using namespace ctpg;
int main(int argc, char** argv) {
  long n = argc > 1 ? atol(argv[1]) : 2000; unsigned seed = argc > 2 ? atoi(argv[2]) : 1; std::mt19937 rng(seed); long bad = 0, done = 0;
  const char hx[] = "0123456789abcdefABCDEF";
  const char alpha[] = "\\xab09FfgG-]^.[";
  for (long k = 0; k < n; k++) {
    char d1 = hx[rng() % 22], d2 = hx[rng() % 22];
    if (regex__hex_digits_to_char(d1, d2) != regex::hex_digits_to_char(d1, d2)) { bad++; std::printf("hex_digits_to_char(%c,%c)\n", d1, d2); }
    std::string s; int len = 1 + rng() % 5; for (int j = 0; j < len; j++) s += alpha[rng() % 15];
    if (s[0] == '\\' && s.size() < 2) s += 'x';
    size_t l1 = 0, l2 = 0; char r1 = regex__regex_char(vx_sv{ s.data(), s.size() }, &l1); char r2 = regex::regex_char(std::string_view(s), l2);
    if (r1 != r2 || l1 != l2) { bad++; std::printf("regex_char(%s): lowered (%d,%zu) real (%d,%zu)\n", s.c_str(), r1, l1, r2, l2); }
    done += 2; if (bad > 10) break;
  }
  std::printf("fidelity regex_decode: %ld comparisons, %ld disagreements\n", done, bad);
  return bad ? 1 : 0;
}
