// fidelity driver, unit dfa: dfa_match on random small automata and buffers, add_conflicted_term, dfa_size_analyzer
#include <ctpg/ctpg.hpp>
#include <cstdio>
#include <cstdlib>
#include <cstring>
#include <random>
#include <csetjmp>
#include <string>
extern "C" {
  jmp_buf vx_native_jmp; int vx_native_armed = 0;
  struct source_point_c { uint32_t line, column; }; struct match_options_c { bool verbose; };
  struct recognized_term_c { uint16_t term_idx; size_t len; };
  struct cbitset_N { uint64_t data[1]; };
  struct dfa_state_c { uint8_t start_state, end_state, unreachable; uint16_t conflicted_recognition[4]; uint16_t transitions[256]; cbitset_N merged_from; };
  struct dfa_c { size_t current_size; size_t N; dfa_state_c the_data[8]; };
  extern const char* g_buf; extern size_t g_len;
  recognized_term_c regex__dfa_match(const dfa_c*, match_options_c, source_point_c, const char*, const char*);
  void regex__add_conflicted_term(uint16_t*, uint16_t);
  struct slice_c { uint32_t start, n; }; struct analyzer_c { uint32_t size; };
  slice_c sa_prim(analyzer_c*); slice_c sa_add(analyzer_c*, slice_c, slice_c); slice_c sa_rep(analyzer_c*, slice_c, uint32_t);
  void vx_merge_abs(size_t, size_t, bool, bool) {}
}
using namespace ctpg;
int main(int argc, char** argv) {
  long n = argc > 1 ? atol(argv[1]) : 2000; unsigned seed = argc > 2 ? atoi(argv[2]) : 1; std::mt19937 rng(seed); long bad = 0, done = 0;
  utils::no_stream ns;
  for (long k = 0; k < n; k++) {
    // random automaton with 1..8 states over the alphabet {a,b,c}
    static dfa_c lo; regex::dfa<8> real; int states = 1 + rng() % 8; lo.current_size = states; lo.N = 8;
    for (int s = 0; s < states; s++) {
      regex::dfa_state<8> st; dfa_state_c& l = lo.the_data[s]; std::memset(&l, 0, sizeof l);
      for (int t = 0; t < 256; t++) l.transitions[t] = 0xFFFF;
      for (int j = 0; j < 4; j++) l.conflicted_recognition[j] = 0xFFFF;
      for (char ch = 'a'; ch <= 'c'; ch++) if (rng() % 3) { uint16_t to = rng() % states; st.transitions[(unsigned char)ch] = to; l.transitions[(unsigned char)ch] = to; }
      if (rng() % 3 == 0) { uint16_t t0 = rng() % 5; st.conflicted_recognition[0] = t0; l.conflicted_recognition[0] = t0; if (rng() % 2) { st.conflicted_recognition[1] = t0 + 1; l.conflicted_recognition[1] = t0 + 1; } st.end_state = l.end_state = 1; }
      real.push_back(st);
    }
    std::string buf; int len = rng() % 9; for (int j = 0; j < len; j++) buf += (char)('a' + rng() % 4);
    auto r = regex::dfa_match(real, match_options{}, source_point{}, buf.data(), buf.data() + buf.size(), ns);
    g_buf = buf.data(); g_len = buf.size();
    recognized_term_c q = regex__dfa_match(&lo, match_options_c{ false }, source_point_c{ 1, 1 }, buf.data(), buf.data() + buf.size());
    if (q.term_idx != r.term_idx || q.len != r.len) { bad++; std::printf("dfa_match(%s): lowered (%u,%zu) real (%u,%zu)\n", buf.c_str(), q.term_idx, q.len, r.term_idx, r.len); }
    // add_conflicted_term
    uint16_t t1[4], t2[4]; for (int j = 0; j < 4; j++) t1[j] = t2[j] = (rng() % 2) ? 0xFFFF : rng() % 9; uint16_t v = rng() % 9;
    regex::conflicted_terms ct; for (int j = 0; j < 4; j++) ct[j] = t2[j]; regex::add_conflicted_term(ct, v); regex__add_conflicted_term(t1, v);
    for (int j = 0; j < 4; j++) if (t1[j] != ct[j]) { bad++; std::printf("add_conflicted_term slot %d\n", j); }
    // analyser: a random sequence of operations
    regex::dfa_size_analyzer ra; analyzer_c la{ 0 }; utils::slice rs = ra.primary_char('x'); slice_c ls = sa_prim(&la);
    for (int j = 0; j < 6; j++) {
      int op = rng() % 3;
      if (op == 0) { auto r2 = ra.primary_char('y'); auto l2 = sa_prim(&la); rs = ra.cat(rs, r2); ls = sa_add(&la, ls, l2); }
      else if (op == 1) { uint32_t c = rng() % 4; rs = ra.rep(rs, c); ls = sa_rep(&la, ls, c); }
      else { rs = ra.star(rs); }
      if (rs.start != ls.start || rs.n != ls.n) { bad++; std::printf("analyser step %d: lowered {%u,%u} real {%u,%u}\n", j, ls.start, ls.n, rs.start, rs.n); break; }
    }
    done += 3; if (bad > 10) break;
  }
  std::printf("fidelity dfa: %ld comparisons, %ld disagreements\n", done, bad);
  return bad ? 1 : 0;
}
